module example.com/plugsim

go 1.20

require github.com/cloudwego/thriftgo v0.4.2

replace github.com/cloudwego/thriftgo => /repo
