// plugsim is a real thriftgo plugin whose behaviour is scripted through the
// environment; it is used to cross-check the simulated os/exec against real
// child processes (property C11).
package main

import (
	"encoding/json"
	"io"
	"os"
	"time"

	"github.com/cloudwego/thriftgo/plugin"
)

type file struct {
	Name    string `json:"name,omitempty"`
	IP      string `json:"ip,omitempty"`
	Content string `json:"content"`
}

type script struct {
	ReadStdin   *int     `json:"read_stdin,omitempty"`
	Files       []file   `json:"files,omitempty"`
	Warnings    []string `json:"warnings,omitempty"`
	Error       *string  `json:"error,omitempty"`
	NoResponse  bool     `json:"no_response,omitempty"`
	Mangle      string   `json:"mangle,omitempty"`
	MangleAt    int      `json:"mangle_at,omitempty"`
	Stderr      string   `json:"stderr,omitempty"`
	DelayBefore int64    `json:"delay_before_ns,omitempty"`
	DelayAfter  int64    `json:"delay_after_ns,omitempty"`
	Exit        int      `json:"exit,omitempty"`
	Notes       string   `json:"notes,omitempty"` // file to write observations to
}

func main() {
	var sc script
	if err := json.Unmarshal([]byte(os.Getenv("PLUGSIM_SCRIPT")), &sc); err != nil {
		os.Exit(97)
	}
	notes := map[string]interface{}{"pid": os.Getpid()}
	flush := func() {
		if sc.Notes != "" {
			b, _ := json.Marshal(notes)
			os.WriteFile(sc.Notes, b, 0o644)
		}
	}
	flush()
	if sc.DelayBefore > 0 {
		time.Sleep(time.Duration(sc.DelayBefore))
	}
	var in []byte
	if sc.ReadStdin == nil {
		in, _ = io.ReadAll(os.Stdin)
	} else if *sc.ReadStdin > 0 {
		in = make([]byte, *sc.ReadStdin)
		n, _ := io.ReadFull(os.Stdin, in)
		in = in[:n]
	}
	notes["stdin_len"] = len(in)
	outPath := ""
	if sc.ReadStdin == nil {
		if req, err := plugin.UnmarshalRequest(in); err == nil {
			outPath = req.OutputPath
			notes["language"] = req.Language
			notes["plugin_parameters"] = req.PluginParameters
			notes["generator_parameters"] = req.GeneratorParameters
			notes["includes"] = len(req.AST.Includes)
		} else {
			notes["req_err"] = err.Error()
		}
	}
	flush()
	if sc.Stderr != "" {
		os.Stderr.WriteString(sc.Stderr)
	}
	var out []byte
	if !sc.NoResponse {
		res := plugin.NewResponse()
		res.Error = sc.Error
		res.Warnings = sc.Warnings
		for i := range sc.Files {
			f := &sc.Files[i]
			g := &plugin.Generated{Content: f.Content}
			if f.Name != "" {
				nm := f.Name
				if outPath != "" {
					nm = outPath + "/" + nm
				}
				g.Name = &nm
			}
			if f.IP != "" {
				ip := f.IP
				g.InsertionPoint = &ip
			}
			res.Contents = append(res.Contents, g)
		}
		out, _ = plugin.MarshalResponse(res)
	}
	switch sc.Mangle {
	case "truncate":
		if len(out) > 0 {
			out = out[:sc.MangleAt%len(out)]
		}
	case "random":
		out = []byte{0xf4, 0x4f, 0xec, 0x9b, 0xea, 0xe1, 0x3c, 0xc3, 0xa6, 0x09, 0xf6, 0x7b}
	case "empty":
		out = nil
	case "append":
		out = append(out, []byte("trailing garbage \x00\x01\x02")...)
	}
	os.Stdout.Write(out)
	if sc.DelayAfter > 0 {
		time.Sleep(time.Duration(sc.DelayAfter))
	}
	notes["done"] = true
	flush()
	os.Exit(sc.Exit)
}
