// Package c12model is the relational reference model of output assembly
// (property C12).  It has no dependency on thriftgo: the in-process driver and
// the command-level checks both feed it recorded submission histories.
package c12model

import (
	"fmt"
	"regexp"
	"strings"
)

type Item struct {
	Name    string `json:"name,omitempty"` // "" = unnamed patch
	IP      string `json:"ip,omitempty"`   // insertion point (patches)
	IPSet   bool   `json:"ip_set,omitempty"`
	Content string `json:"content"`
}

type Feed struct {
	Src   string `json:"src"`
	Items []Item `json:"items"`
}

type Work struct {
	Feeds []Feed `json:"feeds"`
	// Twice: the parties hand the very same objects in again in a second generation (a fresh file
	// manager); the second assembly is the one that is judged
	Twice bool `json:"twice,omitempty"`
	// ViaGenerator: the history goes through generator.Generator.Generate (one Generator for all
	// generations): the first party is the backend, the others are SDK plugins
	ViaGenerator bool `json:"via_generator,omitempty"`
	// Fresh: in the second generation the parties hand in newly built objects that say the same (the
	// same command run again by the host), not the objects of the first generation
	Fresh bool `json:"fresh,omitempty"`
}

// RespFile is one file of the assembled output.
type RespFile struct {
	Name    string
	Content string
}

func clip(s string) string {
	if len(s) > 160 {
		return s[:80] + "…" + s[len(s)-60:]
	}
	return s
}

//
// The model is relational.  It follows the submissions in order and keeps a
// table of the files of the assembled output (name, submitted content, patches).
// The spelling of a fresh name is not specified by the statement, so the model
// reads it off the response: a kept file whose submitted name is taken is bound
// to a not-yet-bound response entry whose content has the submitted content's
// literal text in order (contents carry unique nonces).  Everything else — which
// files are kept or dropped, which patches go where, in what order, what the
// final text is, that names are pairwise distinct and fresh — is the model's.

var MarkerRe = regexp.MustCompile(`@@thriftgo_insertion_point\(([$.0-9a-zA-Z_]*)\)`)
var markerLike = regexp.MustCompile(`@@thriftgo_insertion_point`)

type Entry struct {
	Name        string
	Submitted   string // submitted name
	RenamedFrom string // "" if it holds its submitted name
	Content     string
	Patches     map[string][]string // point -> patch texts in submission order
	RespIdx     int
}

type Verdict struct {
	Class, Sig, Msg        string
	Undefined              string
	FeedErrAt              int // >=0: that Feed call must return an error and end the history
	Kept, Dropped, Renamed int
	Table                  []*Entry
}

// Expected is the final text of the entry: every marker "@@thriftgo_insertion_point(<name>)" whose
// name has patches bound to this file is replaced by those patches in submission order (whatever
// characters the name has: a patch names its point literally); a marker of the form the manager
// recognises ([$.0-9a-zA-Z_]*) without patches is removed; anything else stays as it is.
func (e *Entry) Expected() string {
	const prefix = "@@thriftgo_insertion_point("
	var sb strings.Builder
	rest := e.Content
	for {
		i := strings.Index(rest, prefix)
		if i < 0 {
			sb.WriteString(rest)
			break
		}
		j := strings.IndexByte(rest[i+len(prefix):], ')')
		if j < 0 {
			sb.WriteString(rest)
			break
		}
		if k := strings.Index(rest[i+len(prefix):], prefix); k >= 0 && k < j {
			// this opening has no closing parenthesis of its own: plain text
			sb.WriteString(rest[:i+len(prefix)])
			rest = rest[i+len(prefix):]
			continue
		}
		name := rest[i+len(prefix) : i+len(prefix)+j]
		end := i + len(prefix) + j + 1
		sb.WriteString(rest[:i])
		if ps, ok := e.Patches[name]; ok {
			sb.WriteString(strings.Join(ps, ""))
		} else if nameRe.MatchString(name) {
			// recognised, nothing bound: removed
		} else {
			sb.WriteString(rest[i:end])
		}
		rest = rest[end:]
	}
	return sb.String()
}

var nameRe = regexp.MustCompile(`^[$.0-9a-zA-Z_]*$`)
var anyMarkerRe = regexp.MustCompile(`@@thriftgo_insertion_point\([^)]*\)`)

// skeleton matches any text that contains the literal segments of content in order.
func skeleton(content string) *regexp.Regexp {
	segs := anyMarkerRe.Split(content, -1)
	var sb strings.Builder
	sb.WriteString(`(?s)^`)
	for i, sg := range segs {
		if i > 0 {
			sb.WriteString(`.*`)
		}
		sb.WriteString(regexp.QuoteMeta(sg))
	}
	sb.WriteString(`$`)
	return regexp.MustCompile(sb.String())
}

// judgeC12 runs the model over the history against the response.
func Judge(w *Work, resp []RespFile, same func(name, got, want string) bool) *Verdict {
	v := &Verdict{FeedErrAt: -1}
	var table []*Entry
	byName := map[string]*Entry{}
	bound := map[int]bool{}
	var rnames []string
	var rcontents []string
	for _, g := range resp {
		rnames = append(rnames, g.Name)
		rcontents = append(rcontents, g.Content)
	}
	if same == nil {
		same = func(_, got, want string) bool { return got == want }
	}
	// names ever submitted with two different contents: named patches to them are outside the defined domain
	contents := map[string]map[string]bool{}
	for _, fd := range w.Feeds {
		for _, it := range fd.Items {
			if it.Name != "" && it.IP == "" {
				if contents[it.Name] == nil {
					contents[it.Name] = map[string]bool{}
				}
				contents[it.Name][it.Content] = true
			}
		}
	}
	bad := func(class, sig, f string, a ...interface{}) *Verdict {
		if v.Class == "" {
			v.Class, v.Sig, v.Msg = class, sig, fmt.Sprintf(f, a...)
		}
		return v
	}
	for fi, fd := range w.Feeds {
		var last *Entry
		lastSet, lastDropped := false, false
		for _, it := range fd.Items {
			if it.Name == "" {
				if !lastSet {
					v.FeedErrAt = fi
					return v
				}
				if markerLike.MatchString(it.Content) {
					v.Undefined = "patch text contains marker-like text"
					return v
				}
				if lastDropped || last == nil {
					continue
				}
				last.Patches[it.IP] = append(last.Patches[it.IP], it.Content)
				continue
			}
			if it.IP != "" {
				e := byName[it.Name]
				if e == nil {
					v.Undefined = "named patch for a name that does not exist yet"
					return v
				}
				if len(contents[it.Name]) > 1 || e.RenamedFrom != "" {
					v.Undefined = "named patch for a name that is in conflict"
					return v
				}
				if markerLike.MatchString(it.Content) {
					v.Undefined = "patch text contains marker-like text"
					return v
				}
				e.Patches[it.IP] = append(e.Patches[it.IP], it.Content)
				last, lastSet, lastDropped = e, true, false
				continue
			}
			// a named file
			lastSet = true
			holder := byName[it.Name]
			if holder == nil {
				e := &Entry{Name: it.Name, Submitted: it.Name, Content: it.Content, Patches: map[string][]string{}, RespIdx: -1}
				if resp != nil {
					for i, n := range rnames {
						if n == it.Name && !bound[i] {
							e.RespIdx = i
							bound[i] = true
							break
						}
					}
					if e.RespIdx < 0 {
						return bad("missing-file", "missing-file", "file %q (first of its name) is not in the response", it.Name)
					}
				}
				table = append(table, e)
				byName[it.Name] = e
				last, lastDropped = e, false
				v.Kept++
				continue
			}
			if holder.Content == it.Content {
				last, lastDropped = nil, true
				v.Dropped++
				continue
			}
			// different Content: kept under a fresh unique name — unless it repeats a renamed sibling of the same name
			sibling := false
			for _, e := range table {
				if e.RenamedFrom == it.Name && e.Content == it.Content {
					sibling = true
				}
			}
			idx := -1
			if resp != nil {
				sk := skeleton(it.Content)
				for i := range rnames {
					if !bound[i] && sk.MatchString(rcontents[i]) {
						idx = i
						break
					}
				}
			}
			if idx < 0 {
				if sibling || resp == nil {
					last, lastDropped = nil, true
					v.Dropped++
					continue
				}
				return bad("missing-file", "missing-file", "a later file submitted as %q with content different from the existing one is not in the response under any name", it.Name)
			}
			fresh := rnames[idx]
			if other, taken := byName[fresh]; taken {
				sig := "duplicate-name"
				if other.RenamedFrom == "" {
					sig = "duplicate-name:fresh-name-equals-independently-submitted-name"
				}
				return bad("duplicate-name", sig, "a later %q was kept under the name %q, which is already the name of another file of the output", it.Name, fresh)
			}
			e := &Entry{Name: fresh, Submitted: it.Name, RenamedFrom: it.Name, Content: it.Content, Patches: map[string][]string{}, RespIdx: idx}
			bound[idx] = true
			table = append(table, e)
			byName[fresh] = e
			last, lastDropped = e, false
			v.Kept++
			v.Renamed++
		}
	}
	v.Table = table
	if resp == nil {
		return v
	}
	seen := map[string]bool{}
	for _, n := range rnames {
		if seen[n] {
			return bad("duplicate-name", "duplicate-name", "the response holds two files named %q", n)
		}
		seen[n] = true
	}
	for i := range rnames {
		if !bound[i] {
			return bad("extra-file", "extra-file", "the response holds %q, which corresponds to no kept submission (a duplicate that should have been dropped, or a foreign file)", rnames[i])
		}
	}
	for _, e := range table {
		exp := e.Expected()
		if !same(e.Name, rcontents[e.RespIdx], exp) {
			cls := "wrong-content"
			if e.RenamedFrom != "" {
				cls = "wrong-content-renamed"
			}
			return bad(cls, cls, "file %q (submitted as %q): got %q want %q", e.Name, e.Submitted, clip(rcontents[e.RespIdx]), clip(exp))
		}
		if MarkerRe.MatchString(rcontents[e.RespIdx]) {
			return bad("marker-left", "marker-left", "file %q still contains an insertion-point marker", e.Name)
		}
	}
	return v
}
