package simrt

import (
	"errors"
	"fmt"
	"sync"
	"testing"
)

// hand-instrumented copy of the pool, to exercise the runtime on its own
func pool(jobs int, conc int, failing map[int]bool, f func(i int) error) error {
	var wg sync.WaitGroup
	errs := make(chan error, jobs)
	processing := make(chan struct{}, conc)
	for i := 0; i < jobs; i++ {
		c0, c1 := SendCase(processing, struct{}{}), RecvCase(errs)
		switch Select("s1", false, c0, c1) {
		case 0:
		case 1:
			err := c1.Val()
			WGWait(&wg)
			return err
		}
		WGAdd(&wg, 1)
		i := i
		Go("g", func() {
			defer func() { WGDone(&wg); Recv(processing) }()
			var err error
			if failing[i] {
				err = fmt.Errorf("job %d", i)
			} else {
				err = f(i)
			}
			if err != nil {
				Send(errs, err)
			}
		})
	}
	WGWait(&wg)
	c := RecvCase(errs)
	switch Select("s2", true, c) {
	case 0:
		return c.Val()
	default:
		return nil
	}
}

func TestPool(t *testing.T) {
	fps := map[string]bool{}
	for seed := uint64(0); seed < 3000; seed++ {
		for _, strat := range []string{"random", "pct", "rtb"} {
			sp := &Spec{Kind: "t", Seed: seed, Strategy: strat, Parallelism: 1 + int(seed%4)}
			w := NewWorld(sp)
			failing := map[int]bool{}
			if seed%3 == 0 {
				failing[int(seed%7)] = true
			}
			done := map[int]int{}
			var got error
			res := w.Run(func() {
				got = pool(8, sp.Parallelism, failing, func(i int) error {
					Yield("work")
					done[i]++
					return nil
				})
			})
			if res.ExitHow != "return" {
				t.Fatalf("seed %d %s: %s %s %s", seed, strat, res.ExitHow, res.Verdict, res.Panic)
			}
			if len(res.Leaked) > 0 {
				t.Fatalf("leaked %v", res.Leaked)
			}
			if len(failing) > 0 && got == nil {
				t.Fatalf("seed %d: error lost", seed)
			}
			if len(failing) == 0 && (got != nil || len(done) != 8) {
				t.Fatalf("seed %d: %v %v", seed, got, done)
			}
			fps[res.SchedFP] = true
			// replay
			sp2 := *sp
			sp2.Decisions = res.Decisions
			if sp2.Decisions["sched"] == nil {
				sp2.Decisions["sched"] = []int{}
			}
			w2 := NewWorld(&sp2)
			res2 := w2.Run(func() {
				pool(8, sp.Parallelism, failing, func(i int) error { Yield("work"); return nil })
			})
			if res2.LogHash != res.LogHash {
				t.Fatalf("seed %d %s: replay differs", seed, strat)
			}
		}
	}
	t.Logf("distinct schedules: %d", len(fps))
}

func TestDeadlock(t *testing.T) {
	w := NewWorld(&Spec{Seed: 1})
	ch := make(chan int)
	res := w.Run(func() {
		Go("g", func() { Recv(ch) })
		var wg sync.WaitGroup
		WGAdd(&wg, 1)
		WGWait(&wg)
	})
	if res.ExitHow != "deadlock" {
		t.Fatalf("got %s", res.ExitHow)
	}
	w = NewWorld(&Spec{Seed: 1})
	res = w.Run(func() {
		Go("g", func() { panic(errors.New("boom")) })
		Recv(ch)
	})
	if res.ExitHow != "panic" {
		t.Fatalf("got %s %s", res.ExitHow, res.Verdict)
	}
}
