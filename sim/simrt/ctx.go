package simrt

import (
	"context"
	"time"
)

// simCtx is a context whose deadline lives on the simulated clock and whose
// Done channel is closed through the emulated channel layer.
type simCtx struct {
	parent   context.Context
	done     chan struct{}
	err      error
	deadline time.Time
	hasDL    bool
	onDone   []func()
	tm       *timer
}

func (c *simCtx) Deadline() (time.Time, bool) {
	if c.hasDL {
		return c.deadline, true
	}
	return c.parent.Deadline()
}
func (c *simCtx) Done() <-chan struct{}           { return c.done }
func (c *simCtx) Err() error                      { return c.err }
func (c *simCtx) Value(k interface{}) interface{} { return c.parent.Value(k) }

func (c *simCtx) cancel(err error) {
	if c.err != nil {
		return
	}
	c.err = err
	if c.tm != nil {
		c.tm.dead = true
	}
	cs := chanOf(c.done, chanPtr(c.done))
	if !cs.closed {
		closeState(cs)
	}
	for _, f := range c.onDone {
		f()
	}
	c.onDone = nil
}

func newSimCtx(parent context.Context) *simCtx {
	c := &simCtx{parent: parent, done: make(chan struct{})}
	if p, ok := parent.(*simCtx); ok {
		if p.err != nil {
			c.cancel(p.err)
		} else {
			p.onDone = append(p.onDone, func() { c.cancel(p.err) })
		}
	}
	return c
}

func WithCancel(parent context.Context) (context.Context, context.CancelFunc) {
	c := newSimCtx(parent)
	return c, func() { c.cancel(context.Canceled) }
}

func WithDeadline(parent context.Context, t time.Time) (context.Context, context.CancelFunc) {
	return WithTimeout(parent, t.Sub(Now()))
}

func WithTimeout(parent context.Context, d time.Duration) (context.Context, context.CancelFunc) {
	c := newSimCtx(parent)
	c.hasDL = true
	c.deadline = Now().Add(d)
	if W != nil && c.err == nil {
		if d <= 0 {
			c.cancel(context.DeadlineExceeded)
		} else {
			c.tm = W.addTimer(d, func() {
				Hit("ctx.deadline-fired")
				c.cancel(context.DeadlineExceeded)
			})
		}
	}
	return c, func() { c.cancel(context.Canceled) }
}

// whenDone registers f to run when ctx is cancelled (only simulated contexts
// can be cancelled inside a world).
func whenDone(ctx context.Context, f func()) {
	if c, ok := ctx.(*simCtx); ok {
		if c.err != nil {
			f()
			return
		}
		c.onDone = append(c.onDone, f)
	}
}
