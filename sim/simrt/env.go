package simrt

import (
	"encoding/json"
	"fmt"
	"os"
	"sort"
	"time"
)

// The command world is announced by the real environment variable VERIF_WORLD
// (path of a Spec in JSON) and created here, in simrt's init, so that package
// initialisers of thriftgo (config.init, plugin's os.Getenv) already see the
// simulated disk and environment.
func init() {
	if p := os.Getenv("VERIF_WORLD"); p != "" {
		b, err := os.ReadFile(p)
		if err != nil {
			fmt.Fprintln(os.Stderr, "simrt: cannot read VERIF_WORLD:", err)
			os.Exit(3)
		}
		var sp Spec
		if err := json.Unmarshal(b, &sp); err != nil {
			fmt.Fprintln(os.Stderr, "simrt: bad VERIF_WORLD:", err)
			os.Exit(3)
		}
		bootWorld = NewWorld(&sp)
	}
}

// BootWorld returns the world announced through VERIF_WORLD (nil if none).
func BootWorld() *World {
	if bootWorld != nil && bootWorld.Spec.Kind != "boot" {
		return bootWorld
	}
	return nil
}

func envWorld() *World {
	if W != nil {
		return W
	}
	return bootWorld
}

func Getenv(k string) string {
	if w := envWorld(); w != nil && w.Spec.Kind != "boot" {
		return w.Spec.Env[k]
	}
	return ""
}

func LookupEnv(k string) (string, bool) {
	if w := envWorld(); w != nil && w.Spec.Kind != "boot" {
		v, ok := w.Spec.Env[k]
		return v, ok
	}
	return "", false
}

func Environ() []string {
	var out []string
	if w := envWorld(); w != nil {
		for k, v := range w.Spec.Env {
			out = append(out, k+"="+v)
		}
	}
	sort.Strings(out)
	return out
}

func Args() []string {
	if w := envWorld(); w != nil && w.Spec.Args != nil {
		return w.Spec.Args
	}
	return []string{"thriftgo"}
}

// Exit emulates os.Exit: the world ends at once, no deferred call runs.
func Exit(code int) {
	w := W
	if w == nil {
		os.Exit(code)
	}
	w.logEvent("os.Exit", fmt.Sprint(code))
	w.Res.Exit = code
	w.Res.ExitHow = "os.Exit"
	w.exited = true
	if w.OnExit != nil {
		w.finish()
		w.OnExit(w)
	}
	w.aborted = true
	w.abortHere()
}

func GOMAXPROCS(n int) int {
	if w := envWorld(); w != nil && w.Spec.Parallelism > 0 {
		return w.Spec.Parallelism
	}
	return 1
}

func NumCPU() int { return GOMAXPROCS(0) }

// ---- clock ----

var epoch = time.Date(2026, 1, 1, 0, 0, 0, 0, time.UTC)

type timer struct {
	at   int64
	seq  uint64
	fire func()
	dead bool
}

func (w *World) addTimer(d time.Duration, f func()) *timer {
	if d < 0 {
		d = 0
	}
	w.tseq++
	t := &timer{at: w.now + int64(d), seq: w.tseq, fire: f}
	w.timers = append(w.timers, t)
	return t
}

// advanceClock jumps to the next pending timer and fires everything due then.
func (w *World) advanceClock() bool {
	var best *timer
	for _, t := range w.timers {
		if t.dead {
			continue
		}
		if best == nil || t.at < best.at || (t.at == best.at && t.seq < best.seq) {
			best = t
		}
	}
	if best == nil {
		w.timers = nil
		return false
	}
	if best.at > w.now {
		w.now = best.at
	}
	best.dead = true
	w.logEvent("timer", fmt.Sprintf("t=%d", w.now))
	best.fire()
	// compact
	live := w.timers[:0]
	for _, t := range w.timers {
		if !t.dead {
			live = append(live, t)
		}
	}
	w.timers = live
	return true
}

func Now() time.Time {
	if W != nil {
		return epoch.Add(time.Duration(W.Spec.ClockOffset + W.now))
	}
	return epoch
}

func Since(t time.Time) time.Duration { return Now().Sub(t) }
func Until(t time.Time) time.Duration { return t.Sub(Now()) }

func Sleep(d time.Duration) {
	w := W
	if w == nil || d <= 0 {
		return
	}
	me := w.cur
	fired := false
	w.addTimer(d, func() { fired = true; w.makeRunnable(me) })
	for !fired {
		w.block(fmt.Sprintf("sleep until t=%d", w.now+int64(d)))
	}
}

// After returns a channel on which the (simulated) time is sent after d.
func After(d time.Duration) <-chan time.Time {
	ch := make(chan time.Time, 1)
	w := W
	if w == nil {
		return ch
	}
	cs := chanOf(ch, chanPtr(ch))
	w.addTimer(d, func() { trySend(cs, Now()) })
	return ch
}

// Timer mirrors *time.Timer on the simulated clock.
type Timer struct {
	C  <-chan time.Time
	c  chan time.Time
	tm *timer
	f  func()
}

func (w *World) startTimer(t *Timer, d time.Duration) {
	t.tm = w.addTimer(d, func() {
		if t.f != nil {
			f := t.f
			// the function runs as its own task, like the goroutine time.AfterFunc starts
			nt := w.newTask(w.main)
			go w.taskBody(nt, f)
			return
		}
		trySend(chanOf(t.c, chanPtr(t.c)), Now())
	})
}

// NewTimer mirrors time.NewTimer.
func NewTimer(d time.Duration) *Timer {
	c := make(chan time.Time, 1)
	t := &Timer{C: c, c: c}
	if W != nil {
		W.startTimer(t, d)
	}
	return t
}

// AfterFunc mirrors time.AfterFunc.
func AfterFunc(d time.Duration, f func()) *Timer {
	t := &Timer{f: f}
	if W != nil {
		W.startTimer(t, d)
	}
	return t
}

// Stop mirrors (*time.Timer).Stop.
func (t *Timer) Stop() bool {
	if t.tm == nil || t.tm.dead {
		return false
	}
	t.tm.dead = true
	return true
}

// Reset mirrors (*time.Timer).Reset.
func (t *Timer) Reset(d time.Duration) bool {
	active := t.Stop()
	if W != nil {
		W.startTimer(t, d)
	}
	return active
}

// Getpid / Getppid / Hostname: fixed values, so that names derived from them replay.
func Getpid() int {
	if W != nil && W.Spec.Pid != 0 {
		return W.Spec.Pid
	}
	return 4242
}
func Getppid() int              { return 4241 }
func Hostname() (string, error) { return "simhost", nil }
