package simrt

import (
	"encoding/json"
	"fmt"
	"runtime"
	"runtime/debug"
	"sort"
	"strings"
	"syscall"
)

// Spec describes one simulated world completely; together with the code under
// test it determines the execution.
type Spec struct {
	Kind  string `json:"kind"`
	Seed  uint64 `json:"seed"`
	Label string `json:"label,omitempty"`

	// per-class seed overrides ("sched", "map", "select", "pool", "fault", "rand")
	Seeds map[string]uint64 `json:"seeds,omitempty"`

	Strategy    string `json:"strategy,omitempty"` // random | pct | rtb
	PCTDepth    int    `json:"pct_depth,omitempty"`
	Parallelism int    `json:"parallelism,omitempty"`
	StepBudget  int    `json:"step_budget,omitempty"`

	// explicit decisions per stream (replay / minimisation). A stream that is
	// present is consumed in order and yields 0 when exhausted.
	Decisions map[string][]int `json:"decisions,omitempty"`

	MapMode  string            `json:"map_mode,omitempty"` // sorted | reversed | random
	MapSites map[string]string `json:"map_sites,omitempty"`

	Args []string          `json:"args,omitempty"`
	Env  map[string]string `json:"env,omitempty"`
	Cwd  string            `json:"cwd,omitempty"`

	Files    map[string][]byte `json:"files,omitempty"`
	Dirs     []string          `json:"dirs,omitempty"`
	FSFaults []FSFault         `json:"fs_faults,omitempty"`
	DiskCap  int64             `json:"disk_cap,omitempty"` // bytes that may still be written; 0 = unlimited
	Chunk    int               `json:"chunk,omitempty"`    // write chunk size (0 = 4096)

	ClockOffset int64 `json:"clock_offset,omitempty"` // nanoseconds added to the epoch: the wall-clock instant at which this run starts
	Pid         int   `json:"pid,omitempty"`          // what os.Getpid answers (0 = 4242)

	Programs  map[string]json.RawMessage `json:"programs,omitempty"`   // absolute path -> script for the registered program handler
	BuildInfo map[string]string          `json:"build_info,omitempty"` // absolute path -> thriftgo dependency version

	KeepLog bool            `json:"keep_log,omitempty"`
	DiskAll bool            `json:"disk_all,omitempty"` // report untouched input files too
	Driver  json.RawMessage `json:"driver,omitempty"`
}

// Event is one line of the event log.
type Event struct {
	Seq  int    `json:"q"`
	Step int    `json:"s"`
	Task string `json:"t"`
	Op   string `json:"op"`
	Obj  string `json:"o,omitempty"`
}

// Result is what a world run produced.
type Result struct {
	Exit      int                          `json:"exit"`              // as the real process would report
	ExitHow   string                       `json:"exit_how"`          // return | os.Exit | panic | deadlock | budget
	Panic     string                       `json:"panic,omitempty"`   // value + trace of an escaped panic
	Verdict   string                       `json:"verdict,omitempty"` // deadlock / budget text with wait-for info
	Leaked    []string                     `json:"leaked,omitempty"`  // tasks still blocked when the main task had finished and nothing could run
	Steps     int                          `json:"steps"`
	SimNanos  int64                        `json:"sim_ns"`
	LogHash   string                       `json:"log_hash"`
	SchedFP   string                       `json:"sched_fp"`
	Branching int                          `json:"branching"` // scheduling decisions with >=2 runnable tasks
	Log       []Event                      `json:"log,omitempty"`
	Tail      []Event                      `json:"tail,omitempty"`
	Decisions map[string][]int             `json:"decisions,omitempty"`
	Disk      map[string][]byte            `json:"disk,omitempty"`
	DiskDirs  []string                     `json:"disk_dirs,omitempty"`
	FSLog     []FSAccess                   `json:"fs_log,omitempty"`
	Counters  map[string]int               `json:"counters,omitempty"`
	MapSites  map[string]int               `json:"map_sites,omitempty"` // site -> max number of keys seen
	Taps      map[string][]json.RawMessage `json:"taps,omitempty"`
	Procs     []ProcRecord                 `json:"procs,omitempty"`
	Sections  []string                     `json:"sections,omitempty"`
	Driver    json.RawMessage              `json:"driver,omitempty"`
}

type taskState int

const (
	tsRunnable taskState = iota
	tsBlocked
	tsDone
)

type task struct {
	id       string
	seq      int
	wake     chan struct{}
	state    taskState
	why      string // what it is blocked on
	wakeAt   int64  // >0: sleeping until this simulated time
	children int
	prio     int
	isProc   *Proc
	killed   bool
}

type abortPanic struct{ why string }

// World is one simulated execution.
type World struct {
	Spec *Spec
	Res  *Result

	tasks   []*task
	cur     *task
	main    *task
	step    int
	evSeq   int
	budget  int
	now     int64
	timers  []*timer
	tseq    uint64
	aborted bool
	mainEnd bool
	exited  bool

	streams   map[string]*stream
	logHash   uint64
	fpHash    uint64
	tail      []Event
	objIDs    map[uintptr]string
	objKeep   []interface{}
	objSeq    map[string]int
	pctPoints map[int]bool

	chans      map[uintptr]*chanState
	sigRegs    []*sigReg
	sigIgnored map[syscall.Signal]bool
	wgs        map[uintptr]*wgState
	mus        map[uintptr]*muState
	onces      map[uintptr]*onceState
	pools      map[uintptr]*poolState
	fs         *simFS
	procs      []*Proc
	OnExit     func(w *World) // cmd mode: called when the world ends through Exit/deadlock/panic in a non-main task
}

type stream struct {
	name     string
	r        rng
	explicit []int
	isExpl   bool
	pos      int
	rec      []int
}

// W is the active world (nil outside a run).
var W *World

// NewWorld prepares a world from a spec.
func NewWorld(spec *Spec) *World {
	w := &World{
		Spec:    spec,
		Res:     &Result{Counters: map[string]int{}, MapSites: map[string]int{}, Taps: map[string][]json.RawMessage{}},
		streams: map[string]*stream{},
		objIDs:  map[uintptr]string{},
		objSeq:  map[string]int{},
		chans:   map[uintptr]*chanState{},
		wgs:     map[uintptr]*wgState{},
		mus:     map[uintptr]*muState{},
		onces:   map[uintptr]*onceState{},
		pools:   map[uintptr]*poolState{},
		logHash: 14695981039346656037,
		fpHash:  14695981039346656037,
	}
	w.budget = spec.StepBudget
	if w.budget <= 0 {
		w.budget = 200000
	}
	w.fs = newSimFS(w)
	if spec.Strategy == "pct" {
		d := spec.PCTDepth
		if d <= 0 {
			d = 2
		}
		w.pctPoints = map[int]bool{}
		s := w.stream("sched")
		for i := 0; i < d; i++ {
			w.pctPoints[1+s.r.intn(400)] = true
		}
	}
	return w
}

func (w *World) classSeed(class string) uint64 {
	if v, ok := w.Spec.Seeds[class]; ok {
		return v
	}
	return w.Spec.Seed
}

func (w *World) stream(name string) *stream {
	if s, ok := w.streams[name]; ok {
		return s
	}
	class := name
	if i := strings.IndexByte(name, ':'); i >= 0 {
		class = name[:i]
	}
	s := &stream{name: name, r: rng{s: mix(w.classSeed(class), hashStr(name))}}
	if ex, ok := w.Spec.Decisions[name]; ok {
		s.isExpl, s.explicit = true, ex
	}
	w.streams[name] = s
	return s
}

// Choose returns a value in [0,n) from the named stream and records it.
func (w *World) Choose(name string, n int) int {
	if n <= 1 {
		return 0
	}
	s := w.stream(name)
	var v int
	if s.isExpl {
		if s.pos < len(s.explicit) {
			v = s.explicit[s.pos] % n
			if v < 0 {
				v = -v
			}
		}
		s.pos++
	} else {
		v = s.r.intn(n)
	}
	s.rec = append(s.rec, v)
	return v
}

// Choose on the active world; 0 when there is none.
func Choose(name string, n int) int {
	if W == nil {
		return 0
	}
	return W.Choose(name, n)
}

func (w *World) logEvent(op, obj string) {
	t := "-"
	if w.cur != nil {
		t = w.cur.id
	}
	h := w.logHash
	for _, s := range [...]string{t, "|", op, "|", obj, ";"} {
		for i := 0; i < len(s); i++ {
			h ^= uint64(s[i])
			h *= 1099511628211
		}
	}
	w.logHash = h
	w.evSeq++
	ev := Event{w.evSeq, w.step, t, op, obj}
	if w.Spec.KeepLog {
		w.Res.Log = append(w.Res.Log, ev)
	} else {
		if len(w.tail) >= 400 {
			w.tail = append(w.tail[:0], w.tail[200:]...)
		}
		w.tail = append(w.tail, ev)
	}
}

// Log adds a driver-level event to the event log (drivers use it for oracle
// relevant instants; it draws nothing).
func Log(op, obj string) {
	if W != nil {
		W.logEvent(op, obj)
	}
}

// Hit counts a probe / counter.
func Hit(name string) {
	if W != nil {
		W.Res.Counters[name]++
	}
}

func (w *World) objID(kind string, p uintptr, keep interface{}) string {
	if id, ok := w.objIDs[p]; ok {
		return id
	}
	w.objSeq[kind]++
	id := fmt.Sprintf("%s#%d", kind, w.objSeq[kind])
	w.objIDs[p] = id
	w.objKeep = append(w.objKeep, keep)
	return id
}

func (w *World) newTask(parent *task) *task {
	t := &task{wake: make(chan struct{}, 1), seq: len(w.tasks)}
	if parent == nil {
		t.id = "0"
	} else {
		parent.children++
		t.id = fmt.Sprintf("%s.%d", parent.id, parent.children)
	}
	if w.Spec.Strategy == "pct" {
		t.prio = 1000 + w.stream("sched").r.intn(1000000)
	}
	w.tasks = append(w.tasks, t)
	return t
}

func (w *World) runnable() []*task {
	var rs []*task
	for _, t := range w.tasks {
		if t.state == tsRunnable {
			rs = append(rs, t)
		}
	}
	return rs
}

// pick chooses the next task among the runnable ones; nil if none.
func (w *World) pick() *task {
	for {
		rs := w.runnable()
		if len(rs) == 0 {
			if w.advanceClock() {
				continue
			}
			return nil
		}
		if len(rs) == 1 {
			return rs[0]
		}
		idx := 0
		s := w.stream("sched")
		if s.isExpl {
			if s.pos < len(s.explicit) {
				idx = s.explicit[s.pos] % len(rs)
				if idx < 0 {
					idx = -idx
				}
			} else {
				// exhausted: stay on the current task if possible
				for i, t := range rs {
					if t == w.cur {
						idx = i
					}
				}
			}
			s.pos++
		} else {
			switch w.Spec.Strategy {
			case "rtb": // run to block: keep the current task; otherwise random
				idx = -1
				for i, t := range rs {
					if t == w.cur {
						idx = i
					}
				}
				if idx < 0 {
					idx = s.r.intn(len(rs))
				}
			case "pct":
				if w.pctPoints[w.Res.Branching] && w.cur != nil {
					w.cur.prio = 1000 - w.Res.Branching // demote below everything
				}
				best := 0
				for i, t := range rs {
					if t.prio > rs[best].prio {
						best = i
					}
				}
				idx = best
			default:
				idx = s.r.intn(len(rs))
			}
		}
		s.rec = append(s.rec, idx)
		w.Res.Branching++
		h := w.fpHash
		h ^= uint64(idx) + uint64(len(rs))<<8
		h *= 1099511628211
		w.fpHash = h
		return rs[idx]
	}
}

func (w *World) checkBudget() {
	w.step++
	if w.step > w.budget && !w.aborted {
		w.abort("budget", fmt.Sprintf("step budget %d exhausted; %s", w.budget, w.waitGraph()))
	}
}

// yield is a scheduling point of the running task.
func (w *World) yield(op, obj string) {
	if w.aborted {
		w.abortHere()
	}
	w.checkBudget()
	w.logEvent(op, obj)
	me := w.cur
	next := w.pick()
	if next == nil || next == me {
		return
	}
	w.cur = next
	next.wake <- struct{}{}
	<-me.wake
	if w.aborted {
		w.abortHere()
	}
	if me.killed {
		runtime.Goexit()
	}
}

// block parks the running task until some other task makes it runnable again.
func (w *World) block(why string) {
	if w.aborted {
		w.abortHere()
	}
	me := w.cur
	me.state = tsBlocked
	me.why = why
	w.logEvent("block", why)
	w.switchAway(me)
	<-me.wake
	me.why = ""
	if w.aborted {
		w.abortHere()
	}
	if me.killed {
		runtime.Goexit()
	}
}

// switchAway hands the baton to another task; me is blocked or done.
func (w *World) switchAway(me *task) {
	next := w.pick()
	if next != nil {
		w.cur = next
		next.wake <- struct{}{}
		return
	}
	// nothing can run
	if w.mainEnd {
		// draining after main finished: report leaked tasks, give control back to main
		w.cur = w.main
		w.main.wake <- struct{}{}
		return
	}
	w.abort("deadlock", "all tasks blocked: "+w.waitGraph())
	if me == w.main {
		// the caller (block) will see aborted and unwind
		me.wake <- struct{}{}
		return
	}
	w.cur = w.main
	w.main.wake <- struct{}{}
}

func (w *World) waitGraph() string {
	var sb strings.Builder
	for _, t := range w.tasks {
		if t.state == tsBlocked {
			fmt.Fprintf(&sb, "[task %s waits on %s] ", t.id, t.why)
		} else if t.state == tsRunnable {
			fmt.Fprintf(&sb, "[task %s runnable] ", t.id)
		}
	}
	return sb.String()
}

func (w *World) abort(how, verdict string) {
	if w.aborted {
		return
	}
	w.aborted = true
	w.Res.ExitHow = how
	w.Res.Verdict = verdict
	w.Res.Exit = 2
	if w.OnExit != nil {
		w.finish()
		w.OnExit(w)
	}
}

// abortHere unwinds the calling goroutine of an aborted world.
func (w *World) abortHere() {
	if w.cur == w.main || w.cur == nil {
		panic(abortPanic{w.Res.ExitHow})
	}
	// a non-main task of an aborted world: park forever (abandoned)
	select {}
}

func (w *World) makeRunnable(t *task) {
	if t.state == tsBlocked {
		t.state = tsRunnable
		t.wakeAt = 0
	}
}

var resets []func()

// RegisterReset registers a function that puts process-wide hidden state
// (package-level caches found by the rewriter) back to its initial value; it
// runs at the start of every world so that worlds sharing a process do not
// see each other's history.
func RegisterReset(f func()) { resets = append(resets, f) }

// Run executes fn as task 0 and then lets every other task run until nothing
// can run any more. It returns the result.
func (w *World) Run(fn func()) *Result {
	prev := W
	for _, f := range resets {
		f()
	}
	W = w
	defer func() { W = prev }()
	w.main = w.newTask(nil)
	w.cur = w.main
	func() {
		defer func() {
			if r := recover(); r != nil {
				if _, ok := r.(abortPanic); ok {
					return
				}
				if w.aborted {
					return
				}
				w.Res.ExitHow = "panic"
				w.Res.Exit = 2
				w.Res.Panic = fmt.Sprintf("panic: %v\n\n%s", r, debug.Stack())
			}
		}()
		fn()
		if w.Res.ExitHow == "" {
			w.Res.ExitHow = "return"
		}
	}()
	// drain
	if !w.aborted && !w.exited {
		w.mainEnd = true
		w.logEvent("main-end", "")
		w.main.state = tsDone
		for {
			next := w.pick()
			if next == nil {
				break
			}
			w.cur = next
			next.wake <- struct{}{}
			<-w.main.wake
			if w.aborted {
				break
			}
		}
		for _, t := range w.tasks {
			if t.state == tsBlocked {
				w.Res.Leaked = append(w.Res.Leaked, fmt.Sprintf("task %s blocked on %s", t.id, t.why))
			}
		}
	}
	w.finish()
	return w.Res
}

func (w *World) finish() {
	r := w.Res
	r.Steps = w.step
	r.SimNanos = w.now
	r.LogHash = fmt.Sprintf("%016x", w.logHash)
	r.SchedFP = fmt.Sprintf("%016x", w.fpHash)
	if !w.Spec.KeepLog {
		r.Tail = w.tail
		if len(r.Tail) > 200 {
			r.Tail = r.Tail[len(r.Tail)-200:]
		}
	}
	r.Decisions = map[string][]int{}
	for name, s := range w.streams {
		if len(s.rec) > 0 {
			r.Decisions[name] = s.rec
		}
	}
	r.Disk, r.DiskDirs = w.fs.snapshot()
	r.FSLog = w.fs.log
	for _, p := range w.procs {
		r.Procs = append(r.Procs, p.rec)
	}
}

// Go starts f as a new task.
func Go(site string, f func()) {
	w := W
	if w == nil {
		go f()
		return
	}
	parent := w.cur
	t := w.newTask(parent)
	w.logEvent("go", t.id+"@"+site)
	go w.taskBody(t, f)
	w.yield("spawned", t.id)
}

func (w *World) taskBody(t *task, f func()) {
	<-t.wake
	defer func() {
		// runs also on runtime.Goexit (killed simulated process)
		if r := recover(); r != nil {
			if _, ok := r.(abortPanic); ok {
				return
			}
			if !w.aborted {
				w.Res.Panic = fmt.Sprintf("panic: %v\n\ngoroutine (task %s):\n%s", r, t.id, debug.Stack())
				w.cur = t
				w.abort("panic", "panic in task "+t.id)
				// hand control to main so that it unwinds
				w.cur = w.main
				w.main.wake <- struct{}{}
				select {}
			}
			return
		}
		if w.aborted {
			return
		}
		t.state = tsDone
		w.cur = t
		w.logEvent("end", "")
		w.switchAway(t)
	}()
	if w.aborted {
		return
	}
	f()
}

// Boundary separates sections of a session world (several invocations in one
// process): what was observed so far (file-system log, child processes, taps,
// counters) is dropped, so that the result describes the last section only;
// the event log and its hash keep running.
func Boundary(name string) {
	w := W
	if w == nil {
		return
	}
	w.logEvent("boundary", name)
	w.Res.Sections = append(w.Res.Sections, fmt.Sprintf("%s@%d fs=%d procs=%d", name, w.evSeq, len(w.fs.log), len(w.procs)))
	w.fs.log = nil
	w.procs = nil
	w.Res.Taps = map[string][]json.RawMessage{}
	for k := range w.Res.Counters {
		if strings.HasPrefix(k, "fault.") || strings.HasPrefix(k, "proc.") || strings.HasPrefix(k, "ctx.") {
			delete(w.Res.Counters, k)
		}
	}
}

// Yield is a plain scheduling point (inserted before sync.Map / atomic calls).
func Yield(site string) {
	if W != nil && W.cur != nil {
		W.yield("yield", site)
	}
}

// CurTask returns the id of the running task ("" outside a world).
func CurTask() string {
	if W == nil || W.cur == nil {
		return ""
	}
	return W.cur.id
}

// Tap records a JSON value under a name in the result.
func Tap(name string, v interface{}) {
	if W == nil {
		return
	}
	b, err := json.Marshal(v)
	if err != nil {
		b, _ = json.Marshal(fmt.Sprintf("tap error: %v", err))
	}
	W.Res.Taps[name] = append(W.Res.Taps[name], b)
}

// TapRaw records raw bytes (base64 in JSON) under a name.
func TapRaw(name string, b []byte) {
	if W == nil {
		return
	}
	j, _ := json.Marshal(b)
	W.Res.Taps[name] = append(W.Res.Taps[name], j)
}

// SortedCounterNames is a helper for drivers.
func SortedKeys(m map[string]int) []string {
	ks := make([]string, 0, len(m))
	for k := range m {
		ks = append(ks, k)
	}
	sort.Strings(ks)
	return ks
}
