package simrt

import (
	"errors"
	"io"
	"os"
	"path/filepath"
	"syscall"
)

// File mirrors the part of *os.File that code writing generated files can use.
type File struct {
	name   string
	path   string
	node   *fsNode
	off    int
	flag   int
	closed bool
	fault  *FSFault
	wrote  int
}

func Open(name string) (*File, error) { return OpenFile(name, os.O_RDONLY, 0) }
func Create(name string) (*File, error) {
	return OpenFile(name, os.O_RDWR|os.O_CREATE|os.O_TRUNC, 0o666)
}

func OpenFile(name string, flag int, perm os.FileMode) (*File, error) {
	f := fsys()
	p := f.abs(name)
	writing := flag&(os.O_WRONLY|os.O_RDWR) != 0
	op := "open"
	if writing {
		op = "open-w"
	}
	yieldFS(op, p)
	var ft *FSFault
	if writing {
		ft = f.fault("write", p)
	} else {
		ft = f.fault("read", p)
	}
	if ft != nil && ft.Kind != "short" && ft.Kind != "EIO" {
		err := pathErr("open", name, errnoByName[ft.Kind])
		f.record(op, p, 0, err)
		return nil, err
	}
	if err := f.checkParents("open", name, p); err != nil {
		f.record(op, p, 0, err)
		return nil, err
	}
	n, ok := f.nodes[p]
	if ok && flag&os.O_EXCL != 0 && flag&os.O_CREATE != 0 {
		return nil, pathErr("open", name, syscall.EEXIST)
	}
	if !ok {
		if flag&os.O_CREATE == 0 {
			err := pathErr("open", name, syscall.ENOENT)
			f.record(op, p, 0, err)
			return nil, err
		}
		n = &fsNode{mode: perm}
		f.nodes[p] = n
	}
	if n.dir && writing {
		err := pathErr("open", name, syscall.EISDIR)
		f.record(op, p, 0, err)
		return nil, err
	}
	if flag&os.O_TRUNC != 0 && writing {
		if f.room >= 0 {
			f.room += int64(len(n.data))
		}
		n.data = n.data[:0:0]
	}
	if writing {
		n.touched = true
		n.writers++
		if n.writers > 1 {
			f.w.Res.Counters["fs.concurrent-writers"]++
		}
	}
	f.record(op, p, 0, nil)
	return &File{name: name, path: p, node: n, flag: flag, fault: ft}, nil
}

func (fl *File) Name() string { return fl.name }

func (fl *File) Write(b []byte) (int, error) {
	if fl.closed {
		return 0, os.ErrClosed
	}
	if fl.flag&(os.O_WRONLY|os.O_RDWR) == 0 {
		return 0, &os.PathError{Op: "write", Path: fl.name, Err: syscall.EBADF}
	}
	f := fsys()
	yieldFS("write", fl.path)
	k := len(b)
	var werr error
	if fl.fault != nil && fl.fault.Kind == "short" && fl.wrote+k > fl.fault.After {
		k = fl.fault.After - fl.wrote
		if k < 0 {
			k = 0
		}
		werr = pathErr("write", fl.name, syscall.ENOSPC)
	}
	if fl.fault != nil && fl.fault.Kind == "EIO" {
		k = 0
		werr = pathErr("write", fl.name, syscall.EIO)
	}
	if f.room >= 0 && int64(k) > f.room {
		k = int(f.room)
		werr = pathErr("write", fl.name, syscall.ENOSPC)
		f.w.Res.Counters["fault.fs.write.diskfull"]++
	}
	n := fl.node
	if fl.flag&os.O_APPEND != 0 {
		fl.off = len(n.data)
	}
	if need := fl.off + k; need > len(n.data) {
		n.data = append(n.data, make([]byte, need-len(n.data))...)
	}
	copy(n.data[fl.off:], b[:k])
	fl.off += k
	fl.wrote += k
	if f.room >= 0 {
		f.room -= int64(k)
	}
	f.record("write", fl.path, k, werr)
	return k, werr
}

func (fl *File) WriteString(s string) (int, error) { return fl.Write([]byte(s)) }

func (fl *File) Read(b []byte) (int, error) {
	if fl.closed {
		return 0, os.ErrClosed
	}
	if fl.node.dir {
		return 0, &os.PathError{Op: "read", Path: fl.name, Err: syscall.EISDIR}
	}
	if fl.fault != nil && fl.fault.Kind == "EIO" {
		return 0, &os.PathError{Op: "read", Path: fl.name, Err: syscall.EIO}
	}
	if fl.off >= len(fl.node.data) {
		return 0, io.EOF
	}
	k := copy(b, fl.node.data[fl.off:])
	fl.off += k
	return k, nil
}

func (fl *File) Seek(offset int64, whence int) (int64, error) {
	switch whence {
	case io.SeekStart:
		fl.off = int(offset)
	case io.SeekCurrent:
		fl.off += int(offset)
	case io.SeekEnd:
		fl.off = len(fl.node.data) + int(offset)
	}
	if fl.off < 0 {
		fl.off = 0
		return 0, errors.New("negative position")
	}
	return int64(fl.off), nil
}

func (fl *File) Truncate(size int64) error {
	if int(size) < len(fl.node.data) {
		fl.node.data = fl.node.data[:size]
	}
	return nil
}

func (fl *File) Sync() error { yieldFS("sync", fl.path); return nil }

func (fl *File) Stat() (os.FileInfo, error) {
	return fileInfo{name: filepath.Base(fl.path), size: int64(len(fl.node.data)), mode: fl.node.mode, dir: fl.node.dir}, nil
}

func (fl *File) Close() error {
	if fl.closed {
		return os.ErrClosed
	}
	yieldFS("close", fl.path)
	fl.closed = true
	if fl.flag&(os.O_WRONLY|os.O_RDWR) != 0 {
		fl.node.writers--
		fsys().record("close-w", fl.path, fl.wrote, nil)
	}
	return nil
}

// Rename mirrors os.Rename for files.
func Rename(oldpath, newpath string) error {
	f := fsys()
	op, np := f.abs(oldpath), f.abs(newpath)
	yieldFS("rename", op)
	n, ok := f.nodes[op]
	if !ok {
		return &os.LinkError{Op: "rename", Old: oldpath, New: newpath, Err: syscall.ENOENT}
	}
	if err := f.checkParents("rename", newpath, np); err != nil {
		return err
	}
	delete(f.nodes, op)
	n.touched = true
	f.nodes[np] = n
	f.record("rename", np, 0, nil)
	return nil
}
