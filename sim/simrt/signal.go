package simrt

import (
	"fmt"
	"os"
	"syscall"
)

// Simulated signals.  A world can be sent SIGINT / SIGTERM / SIGHUP at a chosen moment (an FSFault
// whose Kind is the signal's name: the signal arrives just before that file-system call is carried
// out).  What happens then is what the operating system and os/signal do:
//   - nobody asked for the signal (no signal.Notify for it, or it was reset): the process dies at
//     once, no deferred call runs, its wait status says "killed by signal" (Result.Exit = 128+n,
//     ExitHow = "signal");
//   - somebody did: every registered channel gets the value if it has room (os/signal never blocks),
//     and the interrupted call goes on.
//   - the signal is ignored (signal.Ignore): nothing happens.

type sigReg struct {
	p    uintptr
	ch   interface{}
	sigs map[syscall.Signal]bool // nil = all
}

var sigByName = map[string]syscall.Signal{"SIGINT": syscall.SIGINT, "SIGTERM": syscall.SIGTERM, "SIGHUP": syscall.SIGHUP}

func sigNum(s os.Signal) (syscall.Signal, bool) {
	n, ok := s.(syscall.Signal)
	return n, ok
}

// SignalNotify emulates signal.Notify.
func SignalNotify(c chan<- os.Signal, sigs ...os.Signal) {
	if c == nil {
		panic("os/signal: Notify using nil channel")
	}
	w := W
	if w == nil {
		return
	}
	p := chanPtr(c)
	var reg *sigReg
	for _, r := range w.sigRegs {
		if r.p == p {
			reg = r
		}
	}
	if reg == nil {
		reg = &sigReg{p: p, ch: c, sigs: map[syscall.Signal]bool{}}
		w.sigRegs = append(w.sigRegs, reg)
	}
	if len(sigs) == 0 {
		reg.sigs = nil
	} else if reg.sigs != nil {
		for _, s := range sigs {
			if n, ok := sigNum(s); ok {
				reg.sigs[n] = true
				delete(w.sigIgnored, n)
			}
		}
	}
	w.logEvent("signal.Notify", fmt.Sprint(sigs))
}

// SignalStop emulates signal.Stop.
func SignalStop(c chan<- os.Signal) {
	w := W
	if w == nil || c == nil {
		return
	}
	p := chanPtr(c)
	for i, r := range w.sigRegs {
		if r.p == p {
			w.sigRegs = append(w.sigRegs[:i], w.sigRegs[i+1:]...)
			break
		}
	}
	w.logEvent("signal.Stop", "")
}

// SignalIgnore emulates signal.Ignore.
func SignalIgnore(sigs ...os.Signal) {
	w := W
	if w == nil {
		return
	}
	if w.sigIgnored == nil {
		w.sigIgnored = map[syscall.Signal]bool{}
	}
	for _, s := range sigs {
		if n, ok := sigNum(s); ok {
			w.sigIgnored[n] = true
			for _, r := range w.sigRegs {
				if r.sigs != nil {
					delete(r.sigs, n)
				}
			}
		}
	}
	w.logEvent("signal.Ignore", fmt.Sprint(sigs))
}

// SignalReset emulates signal.Reset.
func SignalReset(sigs ...os.Signal) {
	w := W
	if w == nil {
		return
	}
	if len(sigs) == 0 {
		w.sigRegs = nil
		w.sigIgnored = nil
		return
	}
	for _, s := range sigs {
		if n, ok := sigNum(s); ok {
			delete(w.sigIgnored, n)
			for _, r := range w.sigRegs {
				if r.sigs != nil {
					delete(r.sigs, n)
				}
			}
		}
	}
}

// deliverSignal is called by the running task at the moment the signal arrives.
func (w *World) deliverSignal(name string) {
	sig, ok := sigByName[name]
	if !ok {
		return
	}
	w.Res.Counters["signal."+name]++
	if w.sigIgnored[sig] {
		w.logEvent("signal", name+" ignored")
		return
	}
	handled := false
	for _, r := range w.sigRegs {
		if r.sigs == nil || r.sigs[sig] {
			handled = true
			cs := chanOf(r.ch, r.p)
			if !cs.closed {
				if trySend(cs, os.Signal(sig)) {
					w.Res.Counters["signal.delivered-to-handler"]++
				}
			}
		}
	}
	if handled {
		w.logEvent("signal", name+" handled")
		return
	}
	// default disposition: the process is killed
	w.logEvent("signal", name+" kills the process")
	w.Res.Exit = 128 + int(sig)
	w.Res.ExitHow = "signal"
	w.exited = true
	if w.OnExit != nil {
		w.finish()
		w.OnExit(w)
	}
	w.aborted = true
	w.abortHere()
}
