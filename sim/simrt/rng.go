// Package simrt is the deterministic-simulation runtime that vinstr-rewritten
// thriftgo code calls instead of goroutines, channels, sync, os, os/exec,
// context deadlines, time and map iteration.  It imports nothing from thriftgo.
package simrt

// SplitMix64: the only source of pseudo-randomness in a world.
type rng struct{ s uint64 }

func (r *rng) next() uint64 {
	r.s += 0x9e3779b97f4a7c15
	z := r.s
	z = (z ^ (z >> 30)) * 0xbf58476d1ce4e5b9
	z = (z ^ (z >> 27)) * 0x94d049bb133111eb
	return z ^ (z >> 31)
}

func (r *rng) intn(n int) int {
	if n <= 1 {
		return 0
	}
	return int(r.next() % uint64(n))
}

func hashStr(s string) uint64 {
	h := uint64(14695981039346656037)
	for i := 0; i < len(s); i++ {
		h ^= uint64(s[i])
		h *= 1099511628211
	}
	return h
}

func mix(a, b uint64) uint64 {
	r := rng{s: a ^ (b * 0x9e3779b97f4a7c15)}
	r.next()
	return r.next()
}

// Mix is exported for drivers that derive sub-seeds.
func Mix(a, b uint64) uint64 { return mix(a, b) }

// Rand is a small exported PRNG for drivers (generation of workloads).
type Rand struct{ r rng }

func NewRand(seed uint64) *Rand { return &Rand{rng{s: seed}} }
func (r *Rand) Uint64() uint64  { return r.r.next() }
func (r *Rand) Intn(n int) int  { return r.r.intn(n) }
func (r *Rand) Chance(num, den int) bool {
	return r.r.intn(den) < num
}
