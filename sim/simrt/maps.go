package simrt

import (
	"fmt"
	"reflect"
	"sort"
	"strconv"
	"strings"
	"sync"
)

// Map iteration seam.  Keys are first put into a canonical, address-free
// order and then permuted according to the mode of the site:
//   sorted   - canonical order
//   reversed - reverse canonical order
//   random   - Fisher-Yates from the stream "map:<site>"
// Outside a world the order is "sorted".

func (w *World) mapMode(site string) string {
	if m, ok := w.Spec.MapSites[site]; ok {
		return m
	}
	if w.Spec.MapMode != "" {
		return w.Spec.MapMode
	}
	return "sorted"
}

// canonKey renders a value without addresses, following pointers.
func canonKey(v reflect.Value, depth int, sb *strings.Builder) {
	if depth > 6 {
		sb.WriteString("…")
		return
	}
	switch v.Kind() {
	case reflect.String:
		sb.WriteString(strconv.Quote(v.String()))
	case reflect.Int, reflect.Int8, reflect.Int16, reflect.Int32, reflect.Int64:
		sb.WriteString(strconv.FormatInt(v.Int(), 10))
	case reflect.Uint, reflect.Uint8, reflect.Uint16, reflect.Uint32, reflect.Uint64, reflect.Uintptr:
		sb.WriteString(strconv.FormatUint(v.Uint(), 10))
	case reflect.Bool:
		sb.WriteString(strconv.FormatBool(v.Bool()))
	case reflect.Float32, reflect.Float64:
		sb.WriteString(strconv.FormatFloat(v.Float(), 'g', -1, 64))
	case reflect.Ptr, reflect.Interface:
		if v.IsNil() {
			sb.WriteString("nil")
			return
		}
		if v.Kind() == reflect.Interface {
			sb.WriteString(v.Elem().Type().String())
			sb.WriteString(":")
		} else {
			sb.WriteString("&")
		}
		canonKey(v.Elem(), depth+1, sb)
	case reflect.Struct:
		sb.WriteString("{")
		for i := 0; i < v.NumField(); i++ {
			if i > 0 {
				sb.WriteString(",")
			}
			canonKey(v.Field(i), depth+1, sb)
		}
		sb.WriteString("}")
	case reflect.Slice, reflect.Array:
		sb.WriteString("[")
		for i := 0; i < v.Len() && i < 32; i++ {
			if i > 0 {
				sb.WriteString(",")
			}
			canonKey(v.Index(i), depth+1, sb)
		}
		sb.WriteString("]")
	case reflect.Map:
		ks := v.MapKeys()
		strs := make([]string, len(ks))
		for i, k := range ks {
			var b strings.Builder
			canonKey(k, depth+1, &b)
			b.WriteString(":")
			canonKey(v.MapIndex(k), depth+1, &b)
			strs[i] = b.String()
		}
		sort.Strings(strs)
		sb.WriteString("map[" + strings.Join(strs, ",") + "]")
	default:
		sb.WriteString(v.Type().String())
	}
}

func canonString(v reflect.Value) string {
	var sb strings.Builder
	canonKey(v, 0, &sb)
	return sb.String()
}

// order returns the permutation (indices into the canonical order) for a site.
func permute(site string, n int) []int {
	idx := make([]int, n)
	for i := range idx {
		idx[i] = i
	}
	w := W
	if w == nil || n < 2 {
		return idx
	}
	if n > w.Res.MapSites[site] {
		w.Res.MapSites[site] = n
	}
	switch w.mapMode(site) {
	case "reversed":
		for i, j := 0, n-1; i < j; i, j = i+1, j-1 {
			idx[i], idx[j] = idx[j], idx[i]
		}
	case "random":
		name := "map:" + site
		for i := n - 1; i > 0; i-- {
			j := w.Choose(name, i+1)
			idx[i], idx[j] = idx[j], idx[i]
		}
	}
	return idx
}

func sortKeys[K comparable](keys []K, valOf func(K) reflect.Value) {
	if len(keys) < 2 {
		return
	}
	switch ks := interface{}(keys).(type) {
	case []string:
		sort.Strings(ks)
		return
	case []int:
		sort.Ints(ks)
		return
	case []int32:
		sort.Slice(ks, func(i, j int) bool { return ks[i] < ks[j] })
		return
	case []int64:
		sort.Slice(ks, func(i, j int) bool { return ks[i] < ks[j] })
		return
	case []int16:
		sort.Slice(ks, func(i, j int) bool { return ks[i] < ks[j] })
		return
	}
	rv := reflect.ValueOf(keys)
	switch rv.Type().Elem().Kind() {
	case reflect.String:
		sort.SliceStable(keys, func(i, j int) bool { return rv.Index(i).String() < rv.Index(j).String() })
		return
	case reflect.Int, reflect.Int8, reflect.Int16, reflect.Int32, reflect.Int64:
		sort.SliceStable(keys, func(i, j int) bool { return rv.Index(i).Int() < rv.Index(j).Int() })
		return
	case reflect.Uint, reflect.Uint8, reflect.Uint16, reflect.Uint32, reflect.Uint64:
		sort.SliceStable(keys, func(i, j int) bool { return rv.Index(i).Uint() < rv.Index(j).Uint() })
		return
	}
	strs := make([]string, len(keys))
	for i := range keys {
		strs[i] = canonString(rv.Index(i))
	}
	ord := make([]int, len(keys))
	for i := range ord {
		ord[i] = i
	}
	var vstrs []string
	sort.SliceStable(ord, func(i, j int) bool {
		if strs[ord[i]] != strs[ord[j]] {
			return strs[ord[i]] < strs[ord[j]]
		}
		if valOf == nil {
			return false
		}
		if vstrs == nil {
			vstrs = make([]string, len(keys))
			for k := range keys {
				vstrs[k] = canonString(valOf(keys[k]))
			}
		}
		return vstrs[ord[i]] < vstrs[ord[j]]
	})
	out := make([]K, len(keys))
	for i, o := range ord {
		out[i] = keys[o]
	}
	copy(keys, out)
}

// MapIt iterates a map in the order decided by the seam.
type MapIt[K comparable, V any] struct {
	m    map[K]V
	keys []K
	pos  int
	k    K
	v    V
}

// MapIterOf supports `for k, v := range m`.
func MapIterOf[M ~map[K]V, K comparable, V any](site string, m M) *MapIt[K, V] {
	it := &MapIt[K, V]{m: m, pos: -1}
	if len(m) == 0 {
		return it
	}
	keys := make([]K, 0, len(m))
	for k := range m {
		keys = append(keys, k)
	}
	sortKeys(keys, func(k K) reflect.Value { return reflect.ValueOf(m[k]) })
	p := permute(site, len(keys))
	it.keys = make([]K, len(keys))
	for i, j := range p {
		it.keys[i] = keys[j]
	}
	return it
}

func (it *MapIt[K, V]) Next() bool {
	for {
		it.pos++
		if it.pos >= len(it.keys) {
			return false
		}
		k := it.keys[it.pos]
		v, ok := it.m[k]
		if !ok {
			continue // deleted during iteration
		}
		it.k, it.v = k, v
		return true
	}
}
func (it *MapIt[K, V]) Key() K { return it.k }
func (it *MapIt[K, V]) Val() V { return it.v }

// ---- reflect ----

func sortedReflectKeys(site string, v reflect.Value) []reflect.Value {
	ks := v.MapKeys()
	if len(ks) < 2 {
		return ks
	}
	strs := make([]string, len(ks))
	numeric := false
	switch v.Type().Key().Kind() {
	case reflect.Int, reflect.Int8, reflect.Int16, reflect.Int32, reflect.Int64:
		numeric = true
	}
	ord := make([]int, len(ks))
	for i := range ks {
		ord[i] = i
		if !numeric {
			strs[i] = canonString(ks[i])
		}
	}
	var vstrs []string // rendered values, only computed when two keys render alike (distinct pointers to equal data)
	sort.SliceStable(ord, func(a, b int) bool {
		if numeric {
			return ks[ord[a]].Int() < ks[ord[b]].Int()
		}
		if strs[ord[a]] != strs[ord[b]] {
			return strs[ord[a]] < strs[ord[b]]
		}
		if vstrs == nil {
			vstrs = make([]string, len(ks))
			for i := range ks {
				vstrs[i] = canonString(v.MapIndex(ks[i]))
			}
		}
		return vstrs[ord[a]] < vstrs[ord[b]]
	})
	p := permute(site, len(ks))
	out := make([]reflect.Value, len(ks))
	for i, j := range p {
		out[i] = ks[ord[j]]
	}
	return out
}

// MapKeysV replaces reflect.Value.MapKeys.
func MapKeysV(site string, v reflect.Value) []reflect.Value {
	return sortedReflectKeys(site, v)
}

// RMapIter replaces *reflect.MapIter.
type RMapIter struct {
	m    reflect.Value
	keys []reflect.Value
	pos  int
}

// MapRangeV replaces reflect.Value.MapRange.
func MapRangeV(site string, v reflect.Value) *RMapIter {
	return &RMapIter{m: v, keys: sortedReflectKeys(site, v), pos: -1}
}
func (it *RMapIter) Next() bool {
	for {
		it.pos++
		if it.pos >= len(it.keys) {
			return false
		}
		if it.m.MapIndex(it.keys[it.pos]).IsValid() {
			return true
		}
	}
}
func (it *RMapIter) Key() reflect.Value   { return it.keys[it.pos] }
func (it *RMapIter) Value() reflect.Value { return it.m.MapIndex(it.keys[it.pos]) }

// SyncMapRange replaces (*sync.Map).Range.
func SyncMapRange(site string, m *sync.Map, f func(k, v interface{}) bool) {
	type kv struct {
		k, v interface{}
		s    string
	}
	var all []kv
	m.Range(func(k, v interface{}) bool {
		all = append(all, kv{k, v, canonString(reflect.ValueOf(k))})
		return true
	})
	sort.SliceStable(all, func(i, j int) bool { return all[i].s < all[j].s })
	for _, j := range permute(site, len(all)) {
		if W != nil {
			W.yield("syncmap.range", site)
		}
		if cur, ok := m.Load(all[j].k); ok {
			if !f(all[j].k, cur) {
				return
			}
		}
	}
}

var _ = fmt.Sprint
