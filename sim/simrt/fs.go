package simrt

import (
	"fmt"
	"io/fs"
	"os"
	"path/filepath"
	"sort"
	"strings"
	"syscall"
	"time"
)

// FSFault makes the Nth call (0-based, counted per Op over calls whose path
// matches) fail.  Op: read | write | open | mkdir | stat.  Kind: EIO, EACCES,
// ENOSPC, ENOENT, ENOTDIR, EISDIR, EROFS, short (write stops after After bytes
// with ENOSPC), torn (write silently stops after After bytes and reports success
// is NOT modelled: os.WriteFile reports short writes).
type FSFault struct {
	Op    string `json:"op"`
	Match string `json:"match,omitempty"` // substring of the absolute path ("" = any)
	Nth   int    `json:"nth"`
	Kind  string `json:"kind"`
	After int    `json:"after,omitempty"`
	seen  int
	fired bool
}

// FSAccess is one entry of the file-system log.
type FSAccess struct {
	Seq  int    `json:"q"`
	Step int    `json:"s"`
	Task string `json:"t"`
	Op   string `json:"op"`
	Path string `json:"p"`
	N    int    `json:"n,omitempty"`
	Err  string `json:"err,omitempty"`
}

type fsNode struct {
	touched bool
	dir     bool
	data    []byte
	mode    os.FileMode
	writers int
}

type simFS struct {
	w         *World
	nodes     map[string]*fsNode
	cwd       string
	log       []FSAccess
	writeRecs int
	faults    []FSFault
	room      int64 // remaining bytes, -1 unlimited
}

var errnoByName = map[string]syscall.Errno{
	"EIO": syscall.EIO, "EACCES": syscall.EACCES, "ENOSPC": syscall.ENOSPC, "ENOENT": syscall.ENOENT,
	"ENOTDIR": syscall.ENOTDIR, "EISDIR": syscall.EISDIR, "EROFS": syscall.EROFS, "EEXIST": syscall.EEXIST,
	"EMFILE": syscall.EMFILE, "EDQUOT": syscall.EDQUOT,
}

func newSimFS(w *World) *simFS {
	f := &simFS{w: w, nodes: map[string]*fsNode{"/": {dir: true, mode: 0o755}}, cwd: "/work", room: -1}
	sp := w.Spec
	if sp.Cwd != "" {
		f.cwd = sp.Cwd
	}
	f.mkdirAllRaw(f.cwd)
	for _, d := range sp.Dirs {
		f.mkdirAllRaw(f.abs(d))
	}
	names := make([]string, 0, len(sp.Files))
	for n := range sp.Files {
		names = append(names, n)
	}
	sort.Strings(names)
	for _, n := range names {
		p := f.abs(n)
		f.mkdirAllRaw(filepath.Dir(p))
		f.nodes[p] = &fsNode{data: append([]byte(nil), sp.Files[n]...), mode: 0o644}
	}
	f.faults = append([]FSFault(nil), sp.FSFaults...)
	if sp.DiskCap > 0 {
		f.room = sp.DiskCap
	}
	return f
}

func (f *simFS) abs(p string) string {
	if p == "" {
		return f.cwd
	}
	if !filepath.IsAbs(p) {
		p = filepath.Join(f.cwd, p)
	}
	return filepath.Clean(p)
}

func (f *simFS) mkdirAllRaw(p string) {
	p = filepath.Clean(p)
	if p == "/" || p == "." {
		return
	}
	f.mkdirAllRaw(filepath.Dir(p))
	if _, ok := f.nodes[p]; !ok {
		f.nodes[p] = &fsNode{dir: true, mode: 0o755}
	}
}

func (f *simFS) snapshot() (map[string][]byte, []string) {
	files := map[string][]byte{}
	var dirs []string
	for p, n := range f.nodes {
		if n.dir {
			dirs = append(dirs, p)
		} else if n.touched || f.w.Spec.DiskAll {
			files[p] = n.data
		}
	}
	sort.Strings(dirs)
	return files, dirs
}

func (f *simFS) record(op, path string, n int, err error) {
	f.w.evSeq++
	a := FSAccess{Seq: f.w.evSeq, Step: f.w.step, Task: CurTask(), Op: op, Path: path, N: n}
	if err != nil {
		a.Err = err.Error()
	}
	// chunk-level write records are bounded (a small chunk size makes many of them); every other
	// record (open, close, mkdir, stat, read, errors) is always kept: oracles rely on them
	if op != "write" || err != nil || f.writeRecs < 4000 {
		if op == "write" {
			f.writeRecs++
		}
		f.log = append(f.log, a)
	}
}

// fault returns the fault that fires for this call, if any.
func (f *simFS) fault(op, path string) *FSFault {
	hit := f.faultRaw(op, path)
	if hit != nil {
		if _, isSig := sigByName[hit.Kind]; isSig {
			// a signal arrives just before this call; if the process survives it the call goes on
			f.w.deliverSignal(hit.Kind)
			return nil
		}
	}
	return hit
}

func (f *simFS) faultRaw(op, path string) *FSFault {
	var hit *FSFault
	for i := range f.faults {
		ft := &f.faults[i]
		if ft.Op != op || (ft.Match != "" && !strings.Contains(path, ft.Match)) {
			continue
		}
		if ft.seen == ft.Nth && !ft.fired && hit == nil {
			ft.fired = true
			hit = ft
			f.w.Res.Counters["fault.fs."+op+"."+ft.Kind]++
			f.w.logEvent("fault", op+" "+ft.Kind+" "+path)
		}
		ft.seen++
	}
	return hit
}

func pathErr(op, path string, errno syscall.Errno) error {
	return &fs.PathError{Op: op, Path: path, Err: errno}
}

// walk checks that every parent component exists and is a directory.
func (f *simFS) checkParents(op, orig, p string) error {
	dir := filepath.Dir(p)
	if dir == p {
		return nil
	}
	var comps []string
	for d := dir; d != "/" && d != "."; d = filepath.Dir(d) {
		comps = append(comps, d)
	}
	for i := len(comps) - 1; i >= 0; i-- {
		n, ok := f.nodes[comps[i]]
		if !ok {
			return pathErr(op, orig, syscall.ENOENT)
		}
		if !n.dir {
			return pathErr(op, orig, syscall.ENOTDIR)
		}
	}
	return nil
}

type fileInfo struct {
	name string
	size int64
	mode os.FileMode
	dir  bool
}

func (i fileInfo) Name() string { return i.name }
func (i fileInfo) Size() int64  { return i.size }
func (i fileInfo) Mode() os.FileMode {
	if i.dir {
		return i.mode | os.ModeDir
	}
	return i.mode
}
func (i fileInfo) ModTime() time.Time { return time.Unix(1700000000, 0) }
func (i fileInfo) IsDir() bool        { return i.dir }
func (i fileInfo) Sys() interface{}   { return nil }

func fsys() *simFS {
	if W != nil {
		return W.fs
	}
	return bootFS()
}

var bootWorld *World

// bootFS is the disk seen by package initialisers that run before any world
// exists (an empty disk with only the working directory), unless a command
// world has been announced through the environment (see boot.go).
func bootFS() *simFS {
	if bootWorld == nil {
		bootWorld = NewWorld(&Spec{Kind: "boot"})
	}
	return bootWorld.fs
}

func yieldFS(op, p string) {
	if W != nil && W.cur != nil {
		W.yield("fs."+op, p)
	}
}

// ---- the calls thriftgo makes ----

func Stat(name string) (os.FileInfo, error) {
	f := fsys()
	p := f.abs(name)
	yieldFS("stat", p)
	if ft := f.fault("stat", p); ft != nil {
		err := pathErr("stat", name, errnoByName[ft.Kind])
		f.record("stat", p, 0, err)
		return nil, err
	}
	if err := f.checkParents("stat", name, p); err != nil {
		f.record("stat", p, 0, err)
		return nil, err
	}
	n, ok := f.nodes[p]
	if !ok {
		err := pathErr("stat", name, syscall.ENOENT)
		f.record("stat", p, 0, err)
		return nil, err
	}
	f.record("stat", p, 0, nil)
	return fileInfo{name: filepath.Base(p), size: int64(len(n.data)), mode: n.mode, dir: n.dir}, nil
}

func Lstat(name string) (os.FileInfo, error) { return Stat(name) }

func ReadFile(name string) ([]byte, error) {
	f := fsys()
	p := f.abs(name)
	yieldFS("read", p)
	if ft := f.fault("read", p); ft != nil {
		var err error
		if ft.Kind == "EIO" || ft.Kind == "EISDIR" {
			err = pathErr("read", name, errnoByName[ft.Kind])
		} else {
			err = pathErr("open", name, errnoByName[ft.Kind])
		}
		f.record("read", p, 0, err)
		return nil, err
	}
	if err := f.checkParents("open", name, p); err != nil {
		f.record("read", p, 0, err)
		return nil, err
	}
	n, ok := f.nodes[p]
	if !ok {
		err := pathErr("open", name, syscall.ENOENT)
		f.record("read", p, 0, err)
		return nil, err
	}
	if n.dir {
		err := pathErr("read", name, syscall.EISDIR)
		f.record("read", p, 0, err)
		return nil, err
	}
	if n.mode&0o400 == 0 {
		err := pathErr("open", name, syscall.EACCES)
		f.record("read", p, 0, err)
		return nil, err
	}
	f.record("read", p, len(n.data), nil)
	return append([]byte(nil), n.data...), nil
}

func Mkdir(name string, perm os.FileMode) error {
	f := fsys()
	p := f.abs(name)
	yieldFS("mkdir", p)
	return f.mkdir1(name, p, perm, true)
}

func (f *simFS) mkdir1(name, p string, perm os.FileMode, faultable bool) error {
	if faultable {
		if ft := f.fault("mkdir", p); ft != nil {
			err := pathErr("mkdir", name, errnoByName[ft.Kind])
			f.record("mkdir", p, 0, err)
			return err
		}
	}
	if err := f.checkParents("mkdir", name, p); err != nil {
		f.record("mkdir", p, 0, err)
		return err
	}
	if _, ok := f.nodes[p]; ok {
		err := pathErr("mkdir", name, syscall.EEXIST)
		f.record("mkdir", p, 0, err)
		return err
	}
	f.nodes[p] = &fsNode{dir: true, mode: perm}
	f.record("mkdir", p, 0, nil)
	return nil
}

// MkdirAll follows os.MkdirAll: stat fast path, then parents, then mkdir with
// the "someone else created it meanwhile" tolerance.
func MkdirAll(path string, perm os.FileMode) error {
	f := fsys()
	p := f.abs(path)
	yieldFS("mkdirall", p)
	if ft := f.fault("mkdir", p); ft != nil {
		err := pathErr("mkdir", path, errnoByName[ft.Kind])
		f.record("mkdirall", p, 0, err)
		return err
	}
	return f.mkdirAll(path, p, perm)
}

func (f *simFS) mkdirAll(orig, p string, perm os.FileMode) error {
	if n, ok := f.nodes[p]; ok {
		if n.dir {
			return nil
		}
		err := pathErr("mkdir", orig, syscall.ENOTDIR)
		f.record("mkdirall", p, 0, err)
		return err
	}
	parent := filepath.Dir(p)
	if parent != p {
		if err := f.mkdirAll(orig, parent, perm); err != nil {
			return err
		}
	}
	yieldFS("mkdir", p)
	if n, ok := f.nodes[p]; ok { // created by someone else in between
		if n.dir {
			return nil
		}
		return pathErr("mkdir", orig, syscall.ENOTDIR)
	}
	f.nodes[p] = &fsNode{dir: true, mode: perm}
	f.record("mkdir", p, 0, nil)
	return nil
}

// WriteFile is multi-step: open/truncate, chunked writes, close, with a
// scheduling point between the steps.
func WriteFile(name string, data []byte, perm os.FileMode) error {
	f := fsys()
	p := f.abs(name)
	yieldFS("open-w", p)
	ft := f.faultRaw("write", p)
	sigKind, sigAt := "", -1
	if ft != nil {
		if _, isSig := sigByName[ft.Kind]; isSig {
			// the signal arrives when After bytes of this file have been written (0: before the open)
			sigKind, sigAt = ft.Kind, ft.After
			ft = nil
			if sigAt <= 0 {
				sigAt = -1
				f.w.deliverSignal(sigKind)
			}
		}
	}
	if ft != nil && ft.Kind != "short" {
		err := pathErr("open", name, errnoByName[ft.Kind])
		f.record("open-w", p, 0, err)
		return err
	}
	if err := f.checkParents("open", name, p); err != nil {
		f.record("open-w", p, 0, err)
		return err
	}
	n, ok := f.nodes[p]
	if ok && n.dir {
		err := pathErr("open", name, syscall.EISDIR)
		f.record("open-w", p, 0, err)
		return err
	}
	if ok && n.mode&0o200 == 0 {
		err := pathErr("open", name, syscall.EACCES)
		f.record("open-w", p, 0, err)
		return err
	}
	if !ok {
		n = &fsNode{mode: perm}
		f.nodes[p] = n
	} else if f.room >= 0 {
		f.room += int64(len(n.data))
	}
	n.data = n.data[:0:0] // truncate
	n.touched = true
	n.writers++
	if n.writers > 1 {
		f.w.Res.Counters["fs.concurrent-writers"]++
	}
	f.record("open-w", p, 0, nil)
	chunk := f.w.Spec.Chunk
	if chunk <= 0 {
		chunk = 4096
	}
	off := 0
	var werr error
	for off < len(data) {
		yieldFS("write", p)
		if sigAt >= 0 && off >= sigAt {
			sigAt = -1
			f.w.deliverSignal(sigKind)
		}
		k := len(data) - off
		if k > chunk {
			k = chunk
		}
		if ft != nil && ft.Kind == "short" && off+k > ft.After {
			k = ft.After - off
			if k < 0 {
				k = 0
			}
			werr = pathErr("write", name, syscall.ENOSPC)
		}
		if f.room >= 0 && int64(k) > f.room {
			k = int(f.room)
			werr = pathErr("write", name, syscall.ENOSPC)
			f.w.Res.Counters["fault.fs.write.diskfull"]++
		}
		// each writer has its own offset, as two file descriptors would
		if need := off + k; need > len(n.data) {
			n.data = append(n.data, make([]byte, need-len(n.data))...)
		}
		copy(n.data[off:], data[off:off+k])
		if f.room >= 0 {
			f.room -= int64(k)
		}
		off += k
		f.record("write", p, k, werr)
		if werr != nil {
			break
		}
	}
	yieldFS("close-w", p)
	if sigAt >= 0 {
		sigAt = -1
		f.w.deliverSignal(sigKind)
	}
	n.writers--
	f.record("close-w", p, off, werr)
	return werr
}

// Chdir changes the simulated working directory.
func Chdir(dir string) error {
	f := fsys()
	p := f.abs(dir)
	n, ok := f.nodes[p]
	if !ok {
		return pathErr("chdir", dir, syscall.ENOENT)
	}
	if !n.dir {
		return pathErr("chdir", dir, syscall.ENOTDIR)
	}
	f.cwd = p
	if W != nil {
		W.logEvent("chdir", p)
	}
	return nil
}

func Getwd() (string, error) {
	f := fsys()
	return f.cwd, nil
}

func Abs(path string) (string, error) {
	f := fsys()
	return f.abs(path), nil
}

// Remove / RemoveAll / Rename are provided for completeness.
func Remove(name string) error {
	f := fsys()
	p := f.abs(name)
	yieldFS("remove", p)
	if _, ok := f.nodes[p]; !ok {
		return pathErr("remove", name, syscall.ENOENT)
	}
	for q := range f.nodes {
		if strings.HasPrefix(q, p+"/") {
			return pathErr("remove", name, syscall.ENOTEMPTY)
		}
	}
	delete(f.nodes, p)
	f.record("remove", p, 0, nil)
	return nil
}

func RemoveAll(name string) error {
	f := fsys()
	p := f.abs(name)
	yieldFS("removeall", p)
	for q := range f.nodes {
		if q == p || strings.HasPrefix(q, p+"/") {
			delete(f.nodes, q)
		}
	}
	f.record("removeall", p, 0, nil)
	return nil
}

// ReadDir is minimal (names only, sorted).
func ReadDir(name string) ([]os.DirEntry, error) {
	f := fsys()
	p := f.abs(name)
	yieldFS("readdir", p)
	n, ok := f.nodes[p]
	if !ok {
		return nil, pathErr("open", name, syscall.ENOENT)
	}
	if !n.dir {
		return nil, pathErr("readdirent", name, syscall.ENOTDIR)
	}
	var out []os.DirEntry
	var names []string
	for q := range f.nodes {
		if q != p && filepath.Dir(q) == p {
			names = append(names, q)
		}
	}
	sort.Strings(names)
	for _, q := range names {
		c := f.nodes[q]
		out = append(out, fs.FileInfoToDirEntry(fileInfo{name: filepath.Base(q), size: int64(len(c.data)), mode: c.mode, dir: c.dir}))
	}
	return out, nil
}

var _ = fmt.Sprint
