package simrt

import (
	"fmt"
	"reflect"
)

// Channels: the real channel value is only an identity (and carries its
// capacity); all state lives in the world and all blocking is simulated.

type waiter struct {
	t      *task
	ch     *chanState
	isSend bool
	val    interface{}
	ok     bool // recv: value came from a send (true) or close (false)
	done   bool
	sel    *selState
	idx    int
}

type selState struct {
	fired int
	ws    []*waiter
}

type chanState struct {
	id     string
	cap    int
	buf    []interface{}
	closed bool
	recvq  []*waiter
	sendq  []*waiter
}

func chanPtr(ch interface{}) uintptr {
	v := reflect.ValueOf(ch)
	if v.Kind() != reflect.Chan {
		panic("simrt: not a channel")
	}
	return v.Pointer()
}

// global table for channels used outside any world (package init, drivers)
var noWorldChans = map[uintptr]*chanState{}

func chanOf(ch interface{}, p uintptr) *chanState {
	if W == nil {
		cs := noWorldChans[p]
		if cs == nil {
			cs = &chanState{id: "ch", cap: reflect.ValueOf(ch).Cap()}
			noWorldChans[p] = cs
		}
		return cs
	}
	w := W
	cs := w.chans[p]
	if cs == nil {
		if old := noWorldChans[p]; old != nil {
			cs = old
		} else {
			cs = &chanState{cap: reflect.ValueOf(ch).Cap()}
		}
		cs.id = w.objID("ch", p, ch)
		w.chans[p] = cs
	}
	return cs
}

func dequeue(q *[]*waiter) *waiter {
	for len(*q) > 0 {
		x := (*q)[0]
		*q = (*q)[1:]
		if x.done || (x.sel != nil && x.sel.fired != -1) {
			continue
		}
		return x
	}
	return nil
}

func (w *World) fire(x *waiter) {
	x.done = true
	if x.sel != nil {
		x.sel.fired = x.idx
	}
	w.makeRunnable(x.t)
}

func removeWaiter(q *[]*waiter, x *waiter) {
	for i, y := range *q {
		if y == x {
			*q = append((*q)[:i], (*q)[i+1:]...)
			return
		}
	}
}

// trySend: returns true if the send completed without blocking.
func trySend(cs *chanState, v interface{}) bool {
	if cs.closed {
		panic("send on closed channel")
	}
	if r := dequeue(&cs.recvq); r != nil {
		r.val, r.ok = v, true
		if W != nil {
			W.fire(r)
		}
		return true
	}
	if len(cs.buf) < cs.cap {
		cs.buf = append(cs.buf, v)
		return true
	}
	return false
}

// tryRecv: returns (value, ok, completed).
func tryRecv(cs *chanState) (interface{}, bool, bool) {
	if len(cs.buf) > 0 {
		v := cs.buf[0]
		cs.buf = cs.buf[1:]
		// a blocked sender can now move its value into the buffer
		if s := dequeue(&cs.sendq); s != nil {
			cs.buf = append(cs.buf, s.val)
			if W != nil {
				W.fire(s)
			}
		}
		return v, true, true
	}
	if s := dequeue(&cs.sendq); s != nil {
		if W != nil {
			W.fire(s)
		}
		return s.val, true, true
	}
	if cs.closed {
		return nil, false, true
	}
	return nil, false, false
}

func unbox[T any](a interface{}) T {
	if a == nil {
		var z T
		return z
	}
	return a.(T)
}

func blockForever(why string) {
	w := W
	if w == nil {
		panic("simrt: blocking operation outside a world: " + why)
	}
	for {
		w.block(why)
	}
}

// Send emulates ch <- v.
func Send[T any](ch chan<- T, v T) {
	if ch == nil {
		blockForever("send on nil channel")
	}
	p := chanPtr(ch)
	cs := chanOf(ch, p)
	w := W
	if w != nil {
		w.yield("send", cs.id)
	}
	if trySend(cs, v) {
		return
	}
	if w == nil {
		panic("simrt: blocking send outside a world")
	}
	x := &waiter{t: w.cur, ch: cs, isSend: true, val: v}
	cs.sendq = append(cs.sendq, x)
	for !x.done {
		if cs.closed {
			removeWaiter(&cs.sendq, x)
			panic("send on closed channel")
		}
		w.block("send " + cs.id)
	}
}

func recv[T any](ch <-chan T, op string) (T, bool) {
	if ch == nil {
		blockForever("receive from nil channel")
	}
	p := chanPtr(ch)
	cs := chanOf(ch, p)
	w := W
	if w != nil {
		w.yield(op, cs.id)
	}
	if v, ok, done := tryRecv(cs); done {
		return unbox[T](v), ok
	}
	if w == nil {
		panic("simrt: blocking receive outside a world")
	}
	x := &waiter{t: w.cur, ch: cs}
	cs.recvq = append(cs.recvq, x)
	for !x.done {
		w.block("recv " + cs.id)
	}
	return unbox[T](x.val), x.ok
}

// Recv emulates <-ch.
func Recv[T any](ch <-chan T) T {
	v, _ := recv(ch, "recv")
	return v
}

// Recv2 emulates v, ok := <-ch.
func Recv2[T any](ch <-chan T) (T, bool) {
	return recv(ch, "recv")
}

// Close emulates close(ch).
func Close[T any](ch chan<- T) {
	if ch == nil {
		panic("close of nil channel")
	}
	p := chanPtr(ch)
	cs := chanOf(ch, p)
	w := W
	if w != nil {
		w.yield("close", cs.id)
	}
	closeState(cs)
}

func closeState(cs *chanState) {
	if cs.closed {
		panic("close of closed channel")
	}
	cs.closed = true
	for {
		r := dequeue(&cs.recvq)
		if r == nil {
			break
		}
		r.val, r.ok = nil, false
		if W != nil {
			W.fire(r)
		}
	}
	// blocked senders panic when they wake
	for _, s := range cs.sendq {
		if !s.done && W != nil {
			if s.sel != nil {
				if s.sel.fired < 0 {
					s.sel.fired = -2 - s.idx // marks "send case hit a closed channel"
					W.makeRunnable(s.t)
				}
			} else {
				W.makeRunnable(s.t)
			}
		}
	}
}

// ChanLen emulates len(ch).
func ChanLen(ch interface{}) int {
	v := reflect.ValueOf(ch)
	if v.IsNil() {
		return 0
	}
	cs := chanOf(ch, v.Pointer())
	return len(cs.buf)
}

// ChanIter supports `for x := range ch`.
type ChanIt[T any] struct {
	ch  <-chan T
	val T
}

func ChanIter[T any](ch <-chan T) *ChanIt[T] { return &ChanIt[T]{ch: ch} }
func (it *ChanIt[T]) Next() bool {
	v, ok := recv(it.ch, "recv")
	it.val = v
	return ok
}
func (it *ChanIt[T]) Val() T { return it.val }

// ---- select ----

// SelCase is one communication clause prepared for Select.
type SelCase interface {
	selChan() (interface{}, uintptr, bool) // channel, pointer, isNil
	selSend() (bool, interface{})
	selDeliver(v interface{}, ok bool)
}

type SCase[T any] struct {
	ch chan<- T
	v  T
}

func SendCase[T any](ch chan<- T, v T) *SCase[T] { return &SCase[T]{ch, v} }
func (c *SCase[T]) selChan() (interface{}, uintptr, bool) {
	if c.ch == nil {
		return nil, 0, true
	}
	return c.ch, chanPtr(c.ch), false
}
func (c *SCase[T]) selSend() (bool, interface{})      { return true, c.v }
func (c *SCase[T]) selDeliver(v interface{}, ok bool) {}

type RCase[T any] struct {
	ch  <-chan T
	val T
	ok  bool
}

func RecvCase[T any](ch <-chan T) *RCase[T] { return &RCase[T]{ch: ch} }
func (c *RCase[T]) selChan() (interface{}, uintptr, bool) {
	if c.ch == nil {
		return nil, 0, true
	}
	return c.ch, chanPtr(c.ch), false
}
func (c *RCase[T]) selSend() (bool, interface{}) { return false, nil }
func (c *RCase[T]) selDeliver(v interface{}, ok bool) {
	c.val, c.ok = unbox[T](v), ok
}
func (c *RCase[T]) Val() T          { return c.val }
func (c *RCase[T]) Val2() (T, bool) { return c.val, c.ok }

// Select emulates a select statement; it returns the index of the chosen case
// or -1 for the default clause.
func Select(site string, hasDefault bool, cases ...SelCase) int {
	w := W
	type prep struct {
		cs     *chanState
		isSend bool
		val    interface{}
	}
	ps := make([]prep, len(cases))
	for i, c := range cases {
		ch, p, isNil := c.selChan()
		if isNil {
			continue
		}
		ps[i].cs = chanOf(ch, p)
		ps[i].isSend, ps[i].val = c.selSend()
	}
	if w != nil {
		w.yield("select", site)
	}
	// which cases are ready now?
	ready := func() []int {
		var rs []int
		for i, p := range ps {
			if p.cs == nil {
				continue
			}
			if p.isSend {
				if p.cs.closed || len(p.cs.buf) < p.cs.cap || hasLive(p.cs.recvq) {
					rs = append(rs, i)
				}
			} else {
				if len(p.cs.buf) > 0 || p.cs.closed || hasLive(p.cs.sendq) {
					rs = append(rs, i)
				}
			}
		}
		return rs
	}
	rs := ready()
	if len(rs) > 0 {
		k := 0
		if len(rs) > 1 && w != nil {
			k = w.Choose("select", len(rs))
			w.Res.Counters["select.multi-ready"]++
			w.Res.Counters["select.multi-ready@"+site]++
			h := w.fpHash
			h ^= uint64(k) + 77
			h *= 1099511628211
			w.fpHash = h
		}
		i := rs[k]
		if ps[i].isSend {
			if !trySend(ps[i].cs, ps[i].val) {
				panic("simrt: ready send case could not proceed")
			}
		} else {
			v, ok, done := tryRecv(ps[i].cs)
			if !done {
				panic("simrt: ready recv case could not proceed")
			}
			cases[i].selDeliver(v, ok)
		}
		if w != nil {
			w.logEvent("select-case", fmt.Sprintf("%s:%d", site, i))
		}
		return i
	}
	if hasDefault {
		if w != nil {
			w.logEvent("select-case", site+":default")
		}
		return -1
	}
	if w == nil {
		panic("simrt: blocking select outside a world")
	}
	st := &selState{fired: -1}
	for i, p := range ps {
		if p.cs == nil {
			continue
		}
		x := &waiter{t: w.cur, ch: p.cs, isSend: p.isSend, val: p.val, sel: st, idx: i}
		st.ws = append(st.ws, x)
		if p.isSend {
			p.cs.sendq = append(p.cs.sendq, x)
		} else {
			p.cs.recvq = append(p.cs.recvq, x)
		}
	}
	for st.fired == -1 {
		w.block("select " + site)
	}
	for _, x := range st.ws {
		if x.isSend {
			removeWaiter(&x.ch.sendq, x)
		} else {
			removeWaiter(&x.ch.recvq, x)
		}
	}
	if st.fired <= -2 {
		panic("send on closed channel")
	}
	i := st.fired
	for _, x := range st.ws {
		if x.idx == i && !x.isSend {
			cases[i].selDeliver(x.val, x.ok)
		}
	}
	w.logEvent("select-case", fmt.Sprintf("%s:%d", site, i))
	return i
}

func hasLive(q []*waiter) bool {
	for _, x := range q {
		if !x.done && (x.sel == nil || x.sel.fired == -1) {
			return true
		}
	}
	return false
}
