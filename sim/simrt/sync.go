package simrt

import (
	"fmt"
	"sync"
	"unsafe"
)

// ---- WaitGroup ----

type wgState struct {
	id      string
	n       int
	waiters []*task
}

var noWorldWGs = map[uintptr]*wgState{}

func wgOf(wg *sync.WaitGroup) *wgState {
	p := uintptr(unsafe.Pointer(wg))
	if W == nil {
		s := noWorldWGs[p]
		if s == nil {
			s = &wgState{id: "wg"}
			noWorldWGs[p] = s
		}
		return s
	}
	s := W.wgs[p]
	if s == nil {
		s = &wgState{id: W.objID("wg", p, wg)}
		W.wgs[p] = s
	}
	return s
}

func WGAdd(wg *sync.WaitGroup, n int) {
	s := wgOf(wg)
	w := W
	if w != nil {
		w.yield("wg.add", fmt.Sprintf("%s%+d", s.id, n))
	}
	s.n += n
	if s.n < 0 {
		panic("sync: negative WaitGroup counter")
	}
	if s.n == 0 {
		for _, t := range s.waiters {
			if w != nil {
				w.makeRunnable(t)
			}
		}
		s.waiters = nil
	}
}

func WGDone(wg *sync.WaitGroup) { WGAdd(wg, -1) }

func WGWait(wg *sync.WaitGroup) {
	s := wgOf(wg)
	w := W
	if w != nil {
		w.yield("wg.wait", s.id)
	}
	for s.n > 0 {
		if w == nil {
			panic("simrt: blocking WaitGroup.Wait outside a world")
		}
		s.waiters = append(s.waiters, w.cur)
		w.block("wg.wait " + s.id)
	}
}

// ---- Mutex / RWMutex ----

type muState struct {
	id      string
	writer  bool
	readers int
	waiters []*task
}

var noWorldMus = map[uintptr]*muState{}

func muOf(p uintptr, keep interface{}) *muState {
	if W == nil {
		s := noWorldMus[p]
		if s == nil {
			s = &muState{id: "mu"}
			noWorldMus[p] = s
		}
		return s
	}
	s := W.mus[p]
	if s == nil {
		if old := noWorldMus[p]; old != nil {
			s = old
		} else {
			s = &muState{}
		}
		s.id = W.objID("mu", p, keep)
		W.mus[p] = s
	}
	return s
}

func (s *muState) wakeAll() {
	if W != nil {
		for _, t := range s.waiters {
			W.makeRunnable(t)
		}
	}
	s.waiters = nil
}

func lockW(s *muState) {
	w := W
	if w != nil {
		w.yield("lock", s.id)
	}
	for s.writer || s.readers > 0 {
		if w == nil {
			panic("simrt: blocking Lock outside a world")
		}
		s.waiters = append(s.waiters, w.cur)
		w.block("lock " + s.id)
	}
	s.writer = true
}

func unlockW(s *muState) {
	if !s.writer {
		panic("sync: unlock of unlocked mutex")
	}
	s.writer = false
	s.wakeAll()
	if W != nil {
		W.yield("unlock", s.id)
	}
}

func lockR(s *muState) {
	w := W
	if w != nil {
		w.yield("rlock", s.id)
	}
	for s.writer {
		if w == nil {
			panic("simrt: blocking RLock outside a world")
		}
		s.waiters = append(s.waiters, w.cur)
		w.block("rlock " + s.id)
	}
	s.readers++
}

func unlockR(s *muState) {
	if s.readers <= 0 {
		panic("sync: RUnlock of unlocked RWMutex")
	}
	s.readers--
	if s.readers == 0 {
		s.wakeAll()
	}
	if W != nil {
		W.yield("runlock", s.id)
	}
}

func MuLock(m *sync.Mutex)   { lockW(muOf(uintptr(unsafe.Pointer(m)), m)) }
func MuUnlock(m *sync.Mutex) { unlockW(muOf(uintptr(unsafe.Pointer(m)), m)) }
func MuTryLock(m *sync.Mutex) bool {
	s := muOf(uintptr(unsafe.Pointer(m)), m)
	if W != nil {
		W.yield("trylock", s.id)
	}
	if s.writer || s.readers > 0 {
		return false
	}
	s.writer = true
	return true
}
func RWLock(m *sync.RWMutex)    { lockW(muOf(uintptr(unsafe.Pointer(m)), m)) }
func RWUnlock(m *sync.RWMutex)  { unlockW(muOf(uintptr(unsafe.Pointer(m)), m)) }
func RWRLock(m *sync.RWMutex)   { lockR(muOf(uintptr(unsafe.Pointer(m)), m)) }
func RWRUnlock(m *sync.RWMutex) { unlockR(muOf(uintptr(unsafe.Pointer(m)), m)) }
func RWTryLock(m *sync.RWMutex) bool {
	s := muOf(uintptr(unsafe.Pointer(m)), m)
	if W != nil {
		W.yield("trylock", s.id)
	}
	if s.writer || s.readers > 0 {
		return false
	}
	s.writer = true
	return true
}
func RWTryRLock(m *sync.RWMutex) bool {
	s := muOf(uintptr(unsafe.Pointer(m)), m)
	if W != nil {
		W.yield("tryrlock", s.id)
	}
	if s.writer {
		return false
	}
	s.readers++
	return true
}

// ---- Once ----

type onceState struct {
	id      string
	done    bool
	running bool
	waiters []*task
}

// done flags survive worlds: a package-level Once that fired stays fired for
// the life of the process, exactly as the real one.
var onceDone = map[uintptr]*onceState{}

func OnceDo(o *sync.Once, f func()) {
	p := uintptr(unsafe.Pointer(o))
	s := onceDone[p]
	if s == nil {
		s = &onceState{id: "once"}
		onceDone[p] = s
	}
	w := W
	if w != nil {
		w.yield("once", s.id)
	}
	if s.done {
		return
	}
	for s.running {
		if w == nil {
			panic("simrt: Once.Do re-entered outside a world")
		}
		s.waiters = append(s.waiters, w.cur)
		w.block("once")
		if s.done {
			return
		}
	}
	s.running = true
	defer func() {
		s.running = false
		s.done = true
		if W != nil {
			for _, t := range s.waiters {
				W.makeRunnable(t)
			}
		}
		s.waiters = nil
	}()
	f()
}

// ---- Pool ----

type poolState struct {
	id    string
	items []interface{}
}

var noWorldPools = map[uintptr]*poolState{}

func poolOf(p *sync.Pool) *poolState {
	k := uintptr(unsafe.Pointer(p))
	if W == nil {
		s := noWorldPools[k]
		if s == nil {
			s = &poolState{id: "pool"}
			noWorldPools[k] = s
		}
		return s
	}
	s := W.pools[k]
	if s == nil {
		s = &poolState{id: W.objID("pool", k, p)}
		W.pools[k] = s
	}
	return s
}

// PoolGet emulates (*sync.Pool).Get: the chooser decides between the newest
// pooled object, the oldest one and a fresh New().
func PoolGet(p *sync.Pool) interface{} {
	s := poolOf(p)
	w := W
	if w != nil {
		w.yield("pool.get", s.id)
	}
	if len(s.items) > 0 {
		c := 0
		if w != nil {
			c = w.Choose("pool", 4)
		}
		switch c {
		case 0, 1: // newest
			x := s.items[len(s.items)-1]
			s.items = s.items[:len(s.items)-1]
			Hit("pool.get.newest")
			return x
		case 2: // oldest
			x := s.items[0]
			s.items = s.items[1:]
			Hit("pool.get.oldest")
			return x
		}
	}
	Hit("pool.get.new")
	if p.New != nil {
		return p.New()
	}
	return nil
}

func PoolPut(p *sync.Pool, x interface{}) {
	if x == nil {
		return
	}
	s := poolOf(p)
	w := W
	if w != nil {
		w.yield("pool.put", s.id)
	}
	if len(s.items) < 64 {
		s.items = append(s.items, x)
	}
}
