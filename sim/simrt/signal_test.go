package simrt

import (
	"os"
	"syscall"
	"testing"
)

// A signal that nobody asked for kills the process at the moment it arrives (no deferred call,
// wait status "killed by signal", a prefix of the file on the disk); a signal somebody asked for
// is handed to the channel and the interrupted write goes on.
func TestSignals(t *testing.T) {
	data := make([]byte, 10000)
	for i := range data {
		data[i] = 'x'
	}
	// default disposition
	sp := &Spec{Seed: 1, Chunk: 1024, FSFaults: []FSFault{{Op: "write", Match: "/work/a", Nth: 0, Kind: "SIGTERM", After: 3000}}}
	w := NewWorld(sp)
	after := false
	res := w.Run(func() {
		WriteFile("/work/a", data, 0o644)
		after = true
	})
	if res.ExitHow != "signal" || res.Exit != 128+int(syscall.SIGTERM) || after {
		t.Fatalf("default disposition: how=%s exit=%d after=%v", res.ExitHow, res.Exit, after)
	}
	if n := len(res.Disk["/work/a"]); n == 0 || n >= len(data) {
		t.Fatalf("expected a proper prefix on the disk, got %d bytes", n)
	}
	// handled
	sp = &Spec{Seed: 1, Chunk: 1024, FSFaults: []FSFault{{Op: "write", Match: "/work/a", Nth: 0, Kind: "SIGINT", After: 3000}}}
	w = NewWorld(sp)
	got := ""
	res = w.Run(func() {
		ch := make(chan os.Signal, 1)
		SignalNotify(ch, os.Interrupt)
		Go("h", func() {
			s := Recv[os.Signal](ch)
			got = s.String()
		})
		WriteFile("/work/a", data, 0o644)
		Yield("x")
	})
	if res.ExitHow != "return" || got != "interrupt" || len(res.Disk["/work/a"]) != len(data) {
		t.Fatalf("handled: how=%s got=%q len=%d %s", res.ExitHow, got, len(res.Disk["/work/a"]), res.Verdict)
	}
	// asked for another signal only: SIGTERM still kills
	sp = &Spec{Seed: 1, FSFaults: []FSFault{{Op: "write", Nth: 0, Kind: "SIGTERM"}}}
	w = NewWorld(sp)
	res = w.Run(func() {
		ch := make(chan os.Signal, 1)
		SignalNotify(ch, os.Interrupt)
		WriteFile("/work/a", data, 0o644)
	})
	if res.ExitHow != "signal" {
		t.Fatalf("unrelated handler: how=%s", res.ExitHow)
	}
}
