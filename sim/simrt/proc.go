package simrt

import (
	"context"
	"debug/buildinfo"
	"encoding/json"
	"errors"
	"fmt"
	"io"
	"io/fs"
	"os"
	"os/exec"
	"path/filepath"
	"runtime"
	"runtime/debug"
	"strings"
	"syscall"
	"time"
)

// ProgramHandler runs a simulated child process described by script and
// returns its exit code.  Registered by the driver package.
var ProgramHandler func(p *Proc, script json.RawMessage) int

// ProcRecord is what the world remembers about one child process.
type ProcRecord struct {
	Path               string                     `json:"path"`
	Args               []string                   `json:"args,omitempty"`
	Start              int64                      `json:"start_ns"`
	End                int64                      `json:"end_ns"`
	Exit               int                        `json:"exit"`
	Finished           bool                       `json:"finished"`
	Killed             bool                       `json:"killed"`
	KilledAt           int64                      `json:"killed_at_ns,omitempty"`
	Died               string                     `json:"died_by_signal,omitempty"` // killed by somebody else (the OOM killer, an operator), not by the parent
	Execution          int                        `json:"execution,omitempty"`      // 1 = the first time this executable was started in this part of the world, 2 = the second ...
	StdinLen           int                        `json:"stdin_len"`
	StdinRead          int                        `json:"stdin_read"`
	OutBytes           int                        `json:"out_bytes"`
	ErrBytes           int                        `json:"err_bytes"`
	SoftSignalsIgnored int                        `json:"soft_signals_ignored,omitempty"`
	Notes              map[string]json.RawMessage `json:"notes,omitempty"`
}

// Proc is the handle a program handler works with.
type Proc struct {
	w      *World
	t      *task
	cmd    *Cmd
	stdin  []byte
	rd     int
	done   bool
	waiter *task
	rec    ProcRecord

	ignoreSoft bool
	signalName string

	stdinEOF    bool  // the write end of stdin is closed (always true when Cmd.Stdin was a reader)
	stdinReader *task // child blocked reading stdin
	stdinWaiter *task // parent blocked writing a full pipe
}

func (p *Proc) Path() string   { return p.rec.Path }
func (p *Proc) Args() []string { return p.rec.Args }
func (p *Proc) Env() []string  { return p.cmd.Env }

// ReadStdin consumes up to n bytes of standard input (n<0: everything left).
func (p *Proc) ReadStdin(n int) []byte {
	p.w.yield("proc.read", p.t.id)
	var out []byte
	for {
		rest := p.stdin[p.rd:]
		if n >= 0 && len(out)+len(rest) > n {
			rest = rest[:n-len(out)]
		}
		out = append(out, rest...)
		p.rd += len(rest)
		p.rec.StdinRead = p.rd
		if p.stdinWaiter != nil { // room again for a blocked writer
			p.w.makeRunnable(p.stdinWaiter)
			p.stdinWaiter = nil
		}
		if p.stdinEOF && p.rd >= len(p.stdin) {
			return out
		}
		if n >= 0 && len(out) >= n {
			return out
		}
		p.stdinReader = p.t
		p.w.block("child reads stdin")
		p.stdinReader = nil
	}
}

// Write writes to stdout (fd 1) or stderr (fd 2) of the child.
func (p *Proc) Write(fd int, b []byte) {
	p.w.yield("proc.write", fmt.Sprintf("%s fd%d n=%d", p.t.id, fd, len(b)))
	var wr io.Writer
	if fd == 2 {
		wr = p.cmd.Stderr
		p.rec.ErrBytes += len(b)
	} else {
		wr = p.cmd.Stdout
		p.rec.OutBytes += len(b)
	}
	if wr != nil {
		wr.Write(b)
	}
}

// Sleep lets simulated time pass inside the child.
func (p *Proc) Sleep(d time.Duration) { Sleep(d) }

// Hang never returns (until the child is killed).
func (p *Proc) Hang() {
	for {
		p.w.block("child process hangs")
	}
}

// Note stores a JSON value in the process record.
// BuildVersion: the thriftgo version this simulated executable reports in its build info ("" = none).
func (p *Proc) BuildVersion() string {
	return p.w.Spec.BuildInfo[p.rec.Path]
}

func (p *Proc) Note(k string, v interface{}) {
	b, err := json.Marshal(v)
	if err != nil {
		b, _ = json.Marshal(err.Error())
	}
	if p.rec.Notes == nil {
		p.rec.Notes = map[string]json.RawMessage{}
	}
	p.rec.Notes[k] = b
}

// Execution: 1 for the first start of this executable, 2 for the second ...
func (p *Proc) Execution() int { return p.rec.Execution }

// Die ends the child at once as a signal sent by somebody else would (the OOM killer, an operator):
// the parent's Wait reports "signal: <name>", exit code -1; the parent did not kill it.
func (p *Proc) Die(sig string) {
	p.rec.Died = sig
	p.w.logEvent("died", p.t.id+" "+sig)
	Hit("proc.died-by-foreign-signal")
	runtime.Goexit()
}

func (p *Proc) kill() {
	if p.done || p.rec.Killed {
		return
	}
	p.rec.Killed = true
	p.rec.KilledAt = p.w.now
	p.t.killed = true
	p.w.logEvent("kill", p.t.id)
	Hit("proc.killed")
	p.w.makeRunnable(p.t)
}

func (p *Proc) finished() {
	p.done = true
	if len(p.stdin) > p.rec.StdinLen {
		p.rec.StdinLen = len(p.stdin)
	}
	p.rec.End = p.w.now
	if p.rec.Killed || p.rec.Died != "" {
		p.rec.Exit = -1
	} else {
		p.rec.Finished = true
	}
	if p.waiter != nil {
		p.w.makeRunnable(p.waiter)
	}
	if p.stdinWaiter != nil {
		p.w.makeRunnable(p.stdinWaiter)
		p.stdinWaiter = nil
	}
	// the write ends of the child's pipes are closed when it exits
	for _, pp := range p.cmd.pipes {
		pp.closed = true
		pp.wake()
	}
}

// Process mirrors the part of *os.Process a Cancel function can use.
type Process struct {
	Pid int
	p   *Proc
}

// Signal delivers a signal to the simulated child: SIGKILL kills it, SIGINT /
// SIGTERM end it unless its script ignores them.  It never blocks.
func (ps *Process) Signal(sig os.Signal) error {
	if ps == nil || ps.p == nil {
		return errors.New("os: process not initialized")
	}
	if ps.p.done {
		return os.ErrProcessDone
	}
	if sig == os.Kill {
		ps.p.kill()
		return nil
	}
	ps.p.w.logEvent("signal", ps.p.t.id+" "+sig.String())
	Hit("proc.signal." + sig.String())
	if ps.p.ignoreSoft {
		ps.p.rec.SoftSignalsIgnored++
		return nil
	}
	ps.p.signalName = sig.String()
	ps.p.kill()
	return nil
}

func (ps *Process) Kill() error { return ps.Signal(os.Kill) }

// IgnoreInterrupt makes the simulated child ignore SIGINT / SIGTERM.
func (p *Proc) IgnoreInterrupt() { p.ignoreSoft = true }

// ProcessState mirrors the part of *os.ProcessState callers look at.
type ProcessState struct {
	code   int
	signal string
	pid    int
}

func (ps *ProcessState) ExitCode() int {
	if ps == nil {
		return -1
	}
	if ps.signal != "" {
		return -1
	}
	return ps.code
}
func (ps *ProcessState) Success() bool { return ps != nil && ps.signal == "" && ps.code == 0 }
func (ps *ProcessState) Exited() bool  { return ps != nil && ps.signal == "" }
func (ps *ProcessState) Pid() int      { return ps.pid }
func (ps *ProcessState) String() string {
	if ps == nil {
		return "<nil>"
	}
	if ps.signal != "" {
		return "signal: " + ps.signal
	}
	return fmt.Sprintf("exit status %d", ps.code)
}

// ExitError mirrors *exec.ExitError.
type ExitError struct {
	Code   int
	Signal string
	Stderr []byte
}

func (e *ExitError) Error() string {
	if e.Signal != "" {
		return "signal: " + e.Signal
	}
	return fmt.Sprintf("exit status %d", e.Code)
}
func (e *ExitError) ExitCode() int { return e.Code }

// the methods *exec.ExitError gets from the *os.ProcessState it embeds
func (e *ExitError) Exited() bool   { return e.Signal == "" }
func (e *ExitError) Success() bool  { return false }
func (e *ExitError) String() string { return e.Error() }

// Cmd mirrors the part of exec.Cmd thriftgo can use.
type Cmd struct {
	Path   string
	Args   []string
	Env    []string
	Dir    string
	Stdin  io.Reader
	Stdout io.Writer
	Stderr io.Writer
	Err    error

	WaitDelay    time.Duration
	Cancel       func() error
	Process      *Process
	ProcessState *ProcessState

	ctx   context.Context
	proc  *Proc
	pipes []*pipe

	stdinPipe   *stdinPipe
	preStdin    []byte
	preStdinEOF bool
}

func Command(name string, arg ...string) *Cmd {
	c := &Cmd{Path: name, Args: append([]string{name}, arg...)}
	if filepath.Base(name) == name {
		lp, err := LookPath(name)
		if lp != "" {
			c.Path = lp
		}
		if err != nil {
			c.Err = err
		}
	}
	return c
}

func CommandContext(ctx context.Context, name string, arg ...string) *Cmd {
	if ctx == nil {
		panic("nil Context")
	}
	c := Command(name, arg...)
	c.ctx = ctx
	return c
}

func progWorld() *World {
	if W != nil {
		return W
	}
	return bootWorld
}

func progPath(w *World, p string) (string, bool) {
	if w == nil {
		return "", false
	}
	ap := w.fs.abs(p)
	_, ok := w.Spec.Programs[ap]
	return ap, ok
}

// LookPath mirrors exec.LookPath over the simulated PATH.
func LookPath(file string) (string, error) {
	w := progWorld()
	Yield("lookpath")
	if strings.Contains(file, "/") {
		if _, ok := progPath(w, file); ok {
			return file, nil
		}
		return "", &exec.Error{Name: file, Err: fs.ErrNotExist}
	}
	for _, dir := range filepath.SplitList(Getenv("PATH")) {
		if dir == "" {
			dir = "."
		}
		p := filepath.Join(dir, file)
		if _, ok := progPath(w, p); ok {
			if !filepath.IsAbs(p) {
				return p, &exec.Error{Name: file, Err: exec.ErrDot}
			}
			return p, nil
		}
	}
	return "", &exec.Error{Name: file, Err: exec.ErrNotFound}
}

// BuildInfoReadFile mirrors buildinfo.ReadFile for simulated programs.
func BuildInfoReadFile(name string) (*buildinfo.BuildInfo, error) {
	w := progWorld()
	if w == nil {
		return nil, errors.New("simrt: no world")
	}
	ap := w.fs.abs(name)
	v, ok := w.Spec.BuildInfo[ap]
	if !ok || v == "" {
		return nil, fmt.Errorf("%s: could not read Go build info: unrecognized file format", name)
	}
	bi := &buildinfo.BuildInfo{GoVersion: "go1.23.5", Path: "example.com/plugin"}
	bi.Main = debug.Module{Path: "example.com/plugin", Version: "(devel)"}
	if v != "none" {
		bi.Deps = append(bi.Deps, &debug.Module{Path: "github.com/apache/thrift", Version: "v0.13.0"},
			&debug.Module{Path: "github.com/cloudwego/thriftgo", Version: v})
	}
	return bi, nil
}

func (c *Cmd) Start() error {
	w := W
	if w == nil {
		return errors.New("simrt: exec outside a world")
	}
	if c.Err != nil {
		return c.Err
	}
	if c.proc != nil {
		return errors.New("exec: already started")
	}
	if c.ctx != nil {
		if err := c.ctx.Err(); err != nil {
			return err
		}
	}
	ap, ok := progPath(w, c.Path)
	if !ok {
		return &fs.PathError{Op: "fork/exec", Path: c.Path, Err: syscall.ENOENT}
	}
	if ProgramHandler == nil {
		return errors.New("simrt: no program handler registered")
	}
	p := &Proc{w: w, cmd: c}
	p.rec.Path, p.rec.Args, p.rec.Start = ap, c.Args, w.now
	p.rec.Execution = 1
	for _, q := range w.procs {
		if q.rec.Path == ap {
			p.rec.Execution++
		}
	}
	if c.Stdin != nil {
		// os/exec copies the reader into the pipe in a goroutine of its own and ignores EPIPE:
		// modelled as "all of it is available, then EOF"
		b, _ := io.ReadAll(c.Stdin)
		p.stdin = b
		p.rec.StdinLen = len(b)
		p.stdinEOF = true
	} else if c.stdinPipe != nil {
		p.stdin = c.preStdin
		p.stdinEOF = c.preStdinEOF
	} else {
		p.stdinEOF = true
	}
	script := w.Spec.Programs[ap]
	t := w.newTask(w.cur)
	t.isProc = p
	p.t = t
	c.proc = p
	w.procs = append(w.procs, p)
	w.logEvent("exec", t.id+" "+ap)
	Hit("proc.started")
	go w.taskBody(t, func() {
		defer p.finished()
		code := ProgramHandler(p, script)
		p.rec.Exit = code
	})
	c.Process = &Process{Pid: 1000 + len(w.procs), p: p}
	if c.ctx != nil {
		whenDone(c.ctx, func() {
			// as os/exec: the Cancel function if there is one, otherwise kill; then, if WaitDelay is
			// set, a forced kill after that delay
			if c.Cancel != nil {
				c.Cancel()
			} else {
				p.kill()
			}
			if c.WaitDelay > 0 && !p.done {
				w.addTimer(c.WaitDelay, func() { p.kill() })
			}
		})
	}
	w.yield("spawned", t.id)
	return nil
}

func (c *Cmd) Wait() error {
	p := c.proc
	if p == nil {
		return errors.New("exec: not started")
	}
	w := p.w
	w.yield("proc.wait", p.t.id)
	for !p.done {
		p.waiter = w.cur
		w.block("wait for child " + p.t.id)
	}
	c.ProcessState = &ProcessState{code: p.rec.Exit, pid: c.Process.Pid}
	for _, pp := range c.pipes {
		// Wait closes the read ends of StdoutPipe / StderrPipe once the child has exited
		if len(pp.buf) > 0 && !pp.rdClosed {
			w.Res.Counters["proc.pipe-data-lost-by-wait"]++
		}
		pp.rdClosed = true
		pp.wake()
	}
	if p.rec.Died != "" && !p.rec.Killed {
		c.ProcessState.signal = p.rec.Died
		return &ExitError{Code: -1, Signal: p.rec.Died}
	}
	if p.rec.Killed {
		c.ProcessState.signal = "killed"
		if p.signalName != "" {
			c.ProcessState.signal = p.signalName
		}
		return &ExitError{Code: -1, Signal: c.ProcessState.signal}
	}
	if p.rec.Exit != 0 {
		return &ExitError{Code: p.rec.Exit}
	}
	if c.ctx != nil {
		if sc, ok := c.ctx.(*simCtx); ok && sc.err == context.DeadlineExceeded {
			return sc.err
		}
	}
	return nil
}

func (c *Cmd) Run() error {
	if err := c.Start(); err != nil {
		return err
	}
	return c.Wait()
}

type capture struct{ b []byte }

func (c *capture) Write(p []byte) (int, error) { c.b = append(c.b, p...); return len(p), nil }

func (c *Cmd) Output() ([]byte, error) {
	if c.Stdout != nil {
		return nil, errors.New("exec: Stdout already set")
	}
	var out capture
	c.Stdout = &out
	err := c.Run()
	return out.b, err
}

func (c *Cmd) CombinedOutput() ([]byte, error) {
	if c.Stdout != nil || c.Stderr != nil {
		return nil, errors.New("exec: Stdout or Stderr already set")
	}
	var out capture
	c.Stdout, c.Stderr = &out, &out
	err := c.Run()
	return out.b, err
}

func (c *Cmd) String() string { return strings.Join(c.Args, " ") }

// ---- StdoutPipe / StderrPipe ----

type pipe struct {
	buf      []byte
	closed   bool
	rdClosed bool // Wait has closed the parent's read end: what was not read yet is lost (os/exec: "it is incorrect to call Wait before all reads from the pipe have completed")
	waiters  []*task
}

type pipeReader struct{ p *pipe }
type pipeWriter struct{ p *pipe }

// stdinPipe is the write end handed out by StdinPipe: a 64 KiB kernel pipe to the child.
type stdinPipe struct {
	c      *Cmd
	closed bool
}

const pipeCapacity = 65536

func (sp *stdinPipe) Write(b []byte) (int, error) {
	w := W
	n := 0
	for len(b) > 0 {
		if w != nil {
			w.yield("stdin.write", "")
		}
		p := sp.c.proc
		if sp.closed {
			return n, os.ErrClosed
		}
		if p != nil && p.done {
			Hit("proc.stdin-epipe")
			return n, &fs.PathError{Op: "write", Path: "|1", Err: syscall.EPIPE}
		}
		if p == nil {
			// not started yet: the pipe exists, nobody reads
			sp.c.preStdin = append(sp.c.preStdin, b...)
			return n + len(b), nil
		}
		room := pipeCapacity - (len(p.stdin) - p.rd)
		if room <= 0 {
			if w == nil {
				return n, errors.New("simrt: blocking pipe write outside a world")
			}
			p.stdinWaiter = w.cur
			w.block("write to child stdin (pipe full)")
			continue
		}
		k := len(b)
		if k > room {
			k = room
		}
		p.stdin = append(p.stdin, b[:k]...)
		b = b[k:]
		n += k
		if p.stdinReader != nil {
			w.makeRunnable(p.stdinReader)
		}
	}
	return n, nil
}

func (sp *stdinPipe) Close() error {
	if sp.closed {
		return os.ErrClosed
	}
	sp.closed = true
	if p := sp.c.proc; p != nil {
		p.stdinEOF = true
		if p.stdinReader != nil && W != nil {
			W.makeRunnable(p.stdinReader)
		}
	} else {
		sp.c.preStdinEOF = true
	}
	return nil
}

// StdinPipe mirrors (*exec.Cmd).StdinPipe.
func (c *Cmd) StdinPipe() (io.WriteCloser, error) {
	if c.Stdin != nil {
		return nil, errors.New("exec: Stdin already set")
	}
	if c.proc != nil {
		return nil, errors.New("exec: StdinPipe after process started")
	}
	c.stdinPipe = &stdinPipe{c: c}
	return c.stdinPipe, nil
}

func (pw pipeWriter) Write(b []byte) (int, error) {
	pw.p.buf = append(pw.p.buf, b...)
	pw.p.wake()
	return len(b), nil
}

func (p *pipe) wake() {
	if W != nil {
		for _, t := range p.waiters {
			W.makeRunnable(t)
		}
	}
	p.waiters = nil
}

func (pr pipeReader) Read(b []byte) (int, error) {
	w := W
	if w != nil {
		w.yield("pipe.read", "")
	}
	for len(pr.p.buf) == 0 && !pr.p.closed && !pr.p.rdClosed {
		if w == nil {
			return 0, io.EOF
		}
		pr.p.waiters = append(pr.p.waiters, w.cur)
		w.block("read from child pipe")
	}
	if pr.p.rdClosed {
		return 0, &fs.PathError{Op: "read", Path: "|0", Err: os.ErrClosed}
	}
	if len(pr.p.buf) == 0 {
		return 0, io.EOF
	}
	n := copy(b, pr.p.buf)
	pr.p.buf = pr.p.buf[n:]
	return n, nil
}

func (pr pipeReader) Close() error {
	pr.p.closed = true
	pr.p.wake()
	return nil
}

// StdoutPipe mirrors (*exec.Cmd).StdoutPipe.
func (c *Cmd) StdoutPipe() (io.ReadCloser, error) {
	if c.Stdout != nil {
		return nil, errors.New("exec: Stdout already set")
	}
	if c.proc != nil {
		return nil, errors.New("exec: StdoutPipe after process started")
	}
	p := &pipe{}
	c.Stdout = pipeWriter{p}
	c.pipes = append(c.pipes, p)
	return pipeReader{p}, nil
}

// StderrPipe mirrors (*exec.Cmd).StderrPipe.
func (c *Cmd) StderrPipe() (io.ReadCloser, error) {
	if c.Stderr != nil {
		return nil, errors.New("exec: Stderr already set")
	}
	if c.proc != nil {
		return nil, errors.New("exec: StderrPipe after process started")
	}
	p := &pipe{}
	c.Stderr = pipeWriter{p}
	c.pipes = append(c.pipes, p)
	return pipeReader{p}, nil
}

var _ = runtime.Goexit
