package simrt

import (
	"context"
	"fmt"
	"io"
	"reflect"
	"sort"
	"strconv"
	"strings"
	"sync"
)

// ---- sync.Map: a scheduling point in front of the real operation ----

func SMLoad(site string, m *sync.Map, k interface{}) (interface{}, bool) {
	Yield(site)
	return m.Load(k)
}
func SMStore(site string, m *sync.Map, k, v interface{}) { Yield(site); m.Store(k, v) }
func SMLoadOrStore(site string, m *sync.Map, k, v interface{}) (interface{}, bool) {
	Yield(site)
	return m.LoadOrStore(k, v)
}
func SMLoadAndDelete(site string, m *sync.Map, k interface{}) (interface{}, bool) {
	Yield(site)
	return m.LoadAndDelete(k)
}
func SMDelete(site string, m *sync.Map, k interface{}) { Yield(site); m.Delete(k) }
func SMSwap(site string, m *sync.Map, k, v interface{}) (interface{}, bool) {
	Yield(site)
	return m.Swap(k, v)
}
func SMCompareAndSwap(site string, m *sync.Map, k, o, n interface{}) bool {
	Yield(site)
	return m.CompareAndSwap(k, o, n)
}
func SMCompareAndDelete(site string, m *sync.Map, k, o interface{}) bool {
	Yield(site)
	return m.CompareAndDelete(k, o)
}
func SMClear(site string, m *sync.Map) {
	Yield(site)
	m.Range(func(k, _ interface{}) bool { m.Delete(k); return true })
}

// YieldV / Seq put a scheduling point in front of an expression.
func YieldV(site string) struct{}  { Yield(site); return struct{}{} }
func Seq[T any](_ struct{}, v T) T { return v }
func Gosched()                     { Yield("gosched") }

// YieldT is a scheduling point usable inside a condition: `YieldT(site) && (cond)`.
func YieldT(site string) bool { Yield(site); return true }

// YieldG is the scheduling point in front of a statement that mentions a package-level variable
// which the program changes at run time.  It only exists while another task could run: with one
// runnable task it is not a step (nothing logged, no budget used), so single-task phases - nearly
// all of a compiler run - cost nothing.
func YieldG(site string) {
	if W == nil || W.cur == nil {
		return
	}
	n := 0
	for _, t := range W.tasks {
		if t.state == tsRunnable {
			n++
			if n > 1 {
				W.Res.Counters["global-var-yield"]++
				W.yield("yield", site)
				return
			}
		}
	}
}

func YieldGT(site string) bool { YieldG(site); return true }

// ---- math/rand ----

func randStream() *rng {
	if W != nil {
		return &W.stream("rand").r
	}
	return &bootRng
}

var bootRng = rng{s: 1}

func RandRead(b []byte) (int, error) {
	r := randStream()
	for i := range b {
		b[i] = byte(r.next())
	}
	return len(b), nil
}
func RandIntn(n int) int {
	if n <= 0 {
		panic("invalid argument to Intn")
	}
	return int(randStream().next() % uint64(n))
}
func RandInt() int             { return int(randStream().next() >> 1) }
func RandInt63() int64         { return int64(randStream().next() >> 1) }
func RandInt31() int32         { return int32(randStream().next() >> 33) }
func RandInt31n(n int32) int32 { return int32(randStream().next() % uint64(n)) }
func RandInt63n(n int64) int64 { return int64(randStream().next() % uint64(n)) }
func RandUint32() uint32       { return uint32(randStream().next()) }
func RandUint64() uint64       { return randStream().next() }
func RandFloat64() float64     { return float64(randStream().next()>>11) / (1 << 53) }
func RandSeed(int64)           {}
func RandPerm(n int) []int {
	p := make([]int, n)
	for i := range p {
		p[i] = i
	}
	RandShuffle(n, func(i, j int) { p[i], p[j] = p[j], p[i] })
	return p
}
func RandShuffle(n int, swap func(i, j int)) {
	for i := n - 1; i > 0; i-- {
		swap(i, RandIntn(i+1))
	}
}

// ---- canonical, address-free dump with sharing structure ----

type dumper struct {
	sb    strings.Builder
	ids   map[uintptr]int
	next  int
	tree  bool             // unfold shared pointers (tree equality) instead of labelling them
	stack map[uintptr]bool // pointers on the current path (cycle guard in tree mode)
}

// DumpTree renders v as a tree: shared sub-structures are unfolded at every
// occurrence (two dumps are equal iff the values are equal node for node,
// whether or not they share memory); a pointer cycle is cut with a marker.
func DumpTree(v interface{}) string {
	d := &dumper{ids: map[uintptr]int{}, tree: true, stack: map[uintptr]bool{}}
	d.dump(reflect.ValueOf(v), 0)
	return d.sb.String()
}

// Dump renders v deeply. Pointers to structs are numbered in traversal order;
// a pointer met again is printed as a back reference, so two dumps are equal
// iff the values are structurally equal with the same sharing.  nil and empty
// slices / maps are rendered alike.
func Dump(v interface{}) string {
	d := &dumper{ids: map[uintptr]int{}}
	d.dump(reflect.ValueOf(v), 0)
	return d.sb.String()
}

func (d *dumper) dump(v reflect.Value, depth int) {
	if !v.IsValid() {
		d.sb.WriteString("nil")
		return
	}
	if depth > 200 {
		d.sb.WriteString("<deep>")
		return
	}
	switch v.Kind() {
	case reflect.Ptr:
		if v.IsNil() {
			d.sb.WriteString("nil")
			return
		}
		if d.tree {
			p := v.Pointer()
			if d.stack[p] {
				d.sb.WriteString("<cycle>")
				return
			}
			d.stack[p] = true
			d.sb.WriteString("&")
			d.dump(v.Elem(), depth+1)
			delete(d.stack, p)
			return
		}
		if v.Elem().Kind() == reflect.Struct {
			p := v.Pointer()
			if id, ok := d.ids[p]; ok {
				fmt.Fprintf(&d.sb, "^#%d", id)
				return
			}
			d.next++
			d.ids[p] = d.next
			fmt.Fprintf(&d.sb, "&#%d", d.next)
		} else {
			d.sb.WriteString("&")
		}
		d.dump(v.Elem(), depth+1)
	case reflect.Interface:
		if v.IsNil() {
			d.sb.WriteString("nil")
			return
		}
		d.dump(v.Elem(), depth+1)
	case reflect.Struct:
		d.sb.WriteString(v.Type().Name() + "{")
		for i := 0; i < v.NumField(); i++ {
			if i > 0 {
				d.sb.WriteString(",")
			}
			d.sb.WriteString(v.Type().Field(i).Name + ":")
			d.dump(v.Field(i), depth+1)
		}
		d.sb.WriteString("}")
	case reflect.Slice, reflect.Array:
		if v.Kind() == reflect.Slice && v.Type().Elem().Kind() == reflect.Uint8 {
			d.sb.WriteString(strconv.Quote(string(v.Bytes())))
			return
		}
		d.sb.WriteString("[")
		for i := 0; i < v.Len(); i++ {
			if i > 0 {
				d.sb.WriteString(",")
			}
			d.dump(v.Index(i), depth+1)
		}
		d.sb.WriteString("]")
	case reflect.Map:
		ks := v.MapKeys()
		strs := make([]string, len(ks))
		for i, k := range ks {
			strs[i] = canonString(k)
		}
		ord := make([]int, len(ks))
		for i := range ord {
			ord[i] = i
		}
		sort.SliceStable(ord, func(a, b int) bool { return strs[ord[a]] < strs[ord[b]] })
		d.sb.WriteString("map[")
		for n, i := range ord {
			if n > 0 {
				d.sb.WriteString(",")
			}
			d.sb.WriteString(strs[i] + ":")
			d.dump(v.MapIndex(ks[i]), depth+1)
		}
		d.sb.WriteString("]")
	case reflect.String:
		d.sb.WriteString(strconv.Quote(v.String()))
	case reflect.Bool:
		d.sb.WriteString(strconv.FormatBool(v.Bool()))
	case reflect.Int, reflect.Int8, reflect.Int16, reflect.Int32, reflect.Int64:
		d.sb.WriteString(strconv.FormatInt(v.Int(), 10))
	case reflect.Uint, reflect.Uint8, reflect.Uint16, reflect.Uint32, reflect.Uint64, reflect.Uintptr:
		d.sb.WriteString(strconv.FormatUint(v.Uint(), 10))
	case reflect.Float32, reflect.Float64:
		d.sb.WriteString(strconv.FormatFloat(v.Float(), 'g', -1, 64))
	default:
		d.sb.WriteString("<" + v.Kind().String() + ">")
	}
}

// TapDump records the canonical dump of v.
func TapDump(name string, v interface{}) { Tap(name, DumpTree(v)) }

// FedFile is one submitted item as recorded by TapFeed (bytes, so that
// contents that are not valid UTF-8 survive the JSON transport).
type FedFile struct {
	Content []byte `json:"content"`
	Name    []byte `json:"name,omitempty"`
	HasName bool   `json:"has_name,omitempty"`
	IP      []byte `json:"ip,omitempty"`
	HasIP   bool   `json:"has_ip,omitempty"`
}

// TapPersist records the response handed to Generator.Persist (the assembled
// output before post-processing): res has the fields Error *string and
// Contents []*Generated.
func TapPersist(res interface{}) {
	if W == nil {
		return
	}
	v := reflect.ValueOf(res)
	for v.Kind() == reflect.Ptr || v.Kind() == reflect.Interface {
		if v.IsNil() {
			Tap("persist", map[string]interface{}{"nil": true})
			return
		}
		v = v.Elem()
	}
	out := map[string]interface{}{}
	if v.Kind() == reflect.Struct {
		if f := v.FieldByName("Error"); f.IsValid() && f.Kind() == reflect.Ptr && !f.IsNil() {
			out["error"] = []byte(f.Elem().String())
			out["has_error"] = true
		}
		if f := v.FieldByName("Contents"); f.IsValid() {
			out["files"] = fedFiles(f.Interface())
		}
	}
	Tap("persist", out)
}

func fedFiles(files interface{}) []FedFile {
	var out []FedFile
	v := reflect.ValueOf(files)
	if v.Kind() != reflect.Slice {
		return out
	}
	for i := 0; i < v.Len(); i++ {
		e := v.Index(i)
		for e.Kind() == reflect.Ptr || e.Kind() == reflect.Interface {
			if e.IsNil() {
				break
			}
			e = e.Elem()
		}
		if e.Kind() != reflect.Struct {
			continue
		}
		var ff FedFile
		if f := e.FieldByName("Content"); f.IsValid() && f.Kind() == reflect.String {
			ff.Content = []byte(f.String())
		}
		if f := e.FieldByName("Name"); f.IsValid() && f.Kind() == reflect.Ptr && !f.IsNil() {
			ff.Name, ff.HasName = []byte(f.Elem().String()), true
		}
		if f := e.FieldByName("InsertionPoint"); f.IsValid() && f.Kind() == reflect.Ptr && !f.IsNil() {
			ff.IP, ff.HasIP = []byte(f.Elem().String()), true
		}
		out = append(out, ff)
	}
	return out
}

// TapFeed records one FileManager.Feed call (source and submitted items).
// files is a slice of pointers to structs with the fields Content string,
// Name *string and InsertionPoint *string.
func TapFeed(src string, files interface{}) {
	if W == nil {
		return
	}
	var out []FedFile
	v := reflect.ValueOf(files)
	if v.Kind() == reflect.Slice {
		for i := 0; i < v.Len(); i++ {
			e := v.Index(i)
			for e.Kind() == reflect.Ptr || e.Kind() == reflect.Interface {
				if e.IsNil() {
					break
				}
				e = e.Elem()
			}
			if e.Kind() != reflect.Struct {
				continue
			}
			var ff FedFile
			if f := e.FieldByName("Content"); f.IsValid() && f.Kind() == reflect.String {
				ff.Content = []byte(f.String())
			}
			if f := e.FieldByName("Name"); f.IsValid() && f.Kind() == reflect.Ptr && !f.IsNil() {
				ff.Name, ff.HasName = []byte(f.Elem().String()), true
			}
			if f := e.FieldByName("InsertionPoint"); f.IsValid() && f.Kind() == reflect.Ptr && !f.IsNil() {
				ff.IP, ff.HasIP = []byte(f.Elem().String()), true
			}
			out = append(out, ff)
		}
	}
	Tap("feed", map[string]interface{}{"src": src, "files": out})
}

// ---- runtime/pprof ----
// The real profiler starts runtime goroutines that write to the writer on their own schedule; in a
// world the calls only leave a marker in the file.

func PprofStartCPU(w io.Writer) error {
	_, err := w.Write([]byte("simulated cpu profile\n"))
	return err
}
func PprofStopCPU() {}
func PprofWriteHeap(w io.Writer) error {
	_, err := w.Write([]byte("simulated heap profile\n"))
	return err
}

// ---- github.com/cloudwego/gopkg/concurrency/gopool ----
//
// gopool.Go(f) runs f on a pooled goroutine and RECOVERS a panic of f (it logs it and goes on).  The
// pool's own goroutines are outside the simulator, so the call becomes a task of its own with the same
// contract: the panic of f ends f, is logged, and is not propagated.

func GopoolGo(f func()) {
	Go("gopool", func() {
		defer func() {
			if r := recover(); r != nil {
				if _, ok := r.(abortPanic); ok {
					panic(r)
				}
				Hit("gopool.panic-recovered")
				Log("gopool.recovered", fmt.Sprint(r))
			}
		}()
		f()
	})
}

func GopoolCtxGo(ctx context.Context, f func()) { GopoolGo(f) }
