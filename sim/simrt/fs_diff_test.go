package simrt

import (
	"errors"
	"fmt"
	"os"
	"path/filepath"
	"syscall"
	"testing"
)

// Differential self-test of the simulated disk: the error class of each
// simulated call equals that of the real call on a temp directory.
func errClass(err error) string {
	if err == nil {
		return "ok"
	}
	var en syscall.Errno
	if errors.As(err, &en) {
		switch en {
		case syscall.ENOENT:
			return "ENOENT"
		case syscall.ENOTDIR:
			return "ENOTDIR"
		case syscall.EISDIR:
			return "EISDIR"
		case syscall.EEXIST:
			return "EEXIST"
		case syscall.EACCES:
			return "EACCES"
		}
		return en.Error()
	}
	return "other:" + err.Error()
}

func TestFSDifferential(t *testing.T) {
	names := []string{"a", "a/b", "a/b/c.txt", "a/f.txt", "d", "d/e/f/g.txt", "x.txt", "x.txt/y", "a/f.txt/z/w.txt", "d/e"}
	for seed := uint64(1); seed <= 250; seed++ {
		r := NewRand(seed)
		root := t.TempDir()
		w := NewWorld(&Spec{Kind: "t", Seed: seed, Cwd: "/work"})
		var log []string
		w.Run(func() {
			for step := 0; step < 12; step++ {
				n := names[r.Intn(len(names))]
				rp, sp := filepath.Join(root, n), "/work/"+n
				var re, se error
				op := r.Intn(6)
				switch op {
				case 0:
					re, se = os.MkdirAll(rp, 0o755), MkdirAll(sp, 0o755)
				case 1:
					re, se = os.WriteFile(rp, []byte("data"), 0o644), WriteFile(sp, []byte("data"), 0o644)
				case 2:
					_, re = os.ReadFile(rp)
					_, se = ReadFile(sp)
				case 3:
					_, re = os.Stat(rp)
					_, se = Stat(sp)
				case 4:
					re, se = os.Mkdir(rp, 0o755), Mkdir(sp, 0o755)
				case 5:
					f1, e1 := os.OpenFile(rp, os.O_WRONLY|os.O_CREATE, 0o644)
					if e1 == nil {
						f1.Close()
					}
					f2, e2 := OpenFile(sp, os.O_WRONLY|os.O_CREATE, 0o644)
					if e2 == nil {
						f2.Close()
					}
					re, se = e1, e2
				}
				log = append(log, fmt.Sprintf("op%d %s: real=%s sim=%s", op, n, errClass(re), errClass(se)))
				if errClass(re) != errClass(se) {
					t.Fatalf("seed %d: disagreement\n%v", seed, log)
				}
			}
		})
	}
}
