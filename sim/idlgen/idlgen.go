// Package idlgen generates accepted multi-file Thrift IDL programs from an
// explicit model: the generator knows every definition and every reference, so
// that storage-level faults (lost / duplicated records) can be classified
// without consulting the compiler under test.  One record per line.
package idlgen

import (
	"fmt"
	"path"
	"sort"
	"strings"
)

// Rand is the PRNG interface the generator needs (simrt.Rand satisfies it).
type Rand interface {
	Intn(n int) int
	Chance(num, den int) bool
}

// Line is one record of a file.
type Line struct {
	Text    string   `json:"text"`
	Kind    string   `json:"kind"`              // include namespace typedef const enum-open enum-value struct-open field close service-open function blank
	Owner   string   `json:"owner,omitempty"`   // enclosing definition
	Defines string   `json:"defines,omitempty"` // symbol this record defines (file-local name)
	Refs    []string `json:"refs,omitempty"`    // "<fileIndex>:<Name>" symbols this record references
	IncRef  int      `json:"inc_ref,omitempty"` // include: index+1 of the included file
}

type File struct {
	Path     string `json:"path"`
	Base     string `json:"base"` // reference prefix (file name without .thrift)
	Includes []int  `json:"includes"`
	Lines    []Line `json:"lines"`
}

type Program struct {
	Files []*File        `json:"files"`
	Stats map[string]int `json:"stats"`
}

func (f *File) Text() string {
	var sb strings.Builder
	for _, l := range f.Lines {
		sb.WriteString(l.Text)
		sb.WriteString("\n")
	}
	return sb.String()
}

// FileMap renders the program as path -> content (paths relative to root).
func (p *Program) FileMap(root string) map[string][]byte {
	m := map[string][]byte{}
	for _, f := range p.Files {
		m[path.Join(root, f.Path)] = []byte(f.Text())
	}
	return m
}

type sym struct {
	file int
	name string
	kind string // enum struct union exception typedef const service
	// for typedef: target type text (as seen from its own file) and class
	class    string // base | container | enum | struct  (what values of this type look like)
	enumVals []string
	target   *typ
}

type typ struct {
	text  string // as written in file `from`
	class string // bool i8 i16 i32 i64 double string binary enum struct list set map
	sym   *sym   // for enum/struct (after typedef resolution)
	elem  *typ
	key   *typ
	refs  []*sym
}

type gen struct {
	r    Rand
	p    *Program
	syms [][]*sym // per file
	n    int
	opts Options
}

// Options tune the size of the program.
type Options struct {
	MaxFiles int
	MaxDefs  int  // per file
	Rich     bool // more annotations / constants / services
	Twins    bool // two files with the same base name in different directories, each included as "<base>.thrift" by a sibling
}

func (g *gen) name(prefix string) string {
	g.n++
	return fmt.Sprintf("%s%d", prefix, g.n)
}

func (g *gen) stat(k string) { g.p.Stats[k]++ }

// visible returns the symbols file fi can reference: its own (defined so far) and those of its direct includes.
func (g *gen) visible(fi int, kinds ...string) []*sym {
	var out []*sym
	want := map[string]bool{}
	for _, k := range kinds {
		want[k] = true
	}
	add := func(ss []*sym) {
		for _, s := range ss {
			if want[s.kind] {
				out = append(out, s)
			}
		}
	}
	add(g.syms[fi])
	for _, inc := range g.p.Files[fi].Includes {
		add(g.syms[inc])
	}
	return out
}

func (g *gen) refText(from int, s *sym) string {
	if s.file == from {
		return s.name
	}
	return g.p.Files[s.file].Base + "." + s.name
}

func (g *gen) canSee(from int, s *sym) bool {
	if s.file == from {
		return true
	}
	for _, inc := range g.p.Files[from].Includes {
		if inc == s.file {
			return true
		}
	}
	return false
}

// foreignContainerTypedef: a container type written as a typedef name.  A literal for an element of such a type makes the Go backend of the
// unchanged tree dereference nil (valid input, outside the claimed properties;
// see DESIGN.md), so the generator does not produce it.
func (g *gen) foreignContainerTypedef(from int, t *typ) bool {
	if t == nil {
		return false
	}
	if t.class == "list" || t.class == "set" || t.class == "map" {
		for _, r := range t.refs {
			if r.kind == "typedef" && !strings.ContainsAny(t.text, "<") {
				return true
			}
		}
	}
	return false
}

func symRef(s *sym) string { return fmt.Sprintf("%d:%s", s.file, s.name) }

var baseTypes = []string{"bool", "byte", "i8", "i16", "i32", "i64", "double", "string", "binary"}

func (g *gen) baseType() *typ {
	b := baseTypes[g.r.Intn(len(baseTypes))]
	c := b
	if c == "byte" {
		c = "i8"
	}
	return &typ{text: b, class: c}
}

// keyType: types usable as map keys / set elements with literal values
func (g *gen) keyType(from int) *typ {
	switch g.r.Intn(4) {
	case 0:
		return &typ{text: "string", class: "string"}
	case 1:
		return &typ{text: "i32", class: "i32"}
	case 2:
		return &typ{text: "i64", class: "i64"}
	}
	es := g.visible(from, "enum")
	if len(es) > 0 {
		e := es[g.r.Intn(len(es))]
		return &typ{text: g.refText(from, e), class: "enum", sym: e, refs: []*sym{e}}
	}
	return &typ{text: "string", class: "string"}
}

func (g *gen) anyType(from int, depth int) *typ {
	c := g.r.Intn(10)
	switch {
	case c < 4:
		return g.baseType()
	case c < 6:
		ss := g.visible(from, "struct", "union", "exception", "enum", "typedef")
		if len(ss) > 0 {
			s := ss[g.r.Intn(len(ss))]
			switch s.kind {
			case "enum":
				return &typ{text: g.refText(from, s), class: "enum", sym: s, refs: []*sym{s}}
			case "typedef":
				t := *s.target
				t.text = g.refText(from, s)
				t.refs = []*sym{s}
				return &t
			default:
				return &typ{text: g.refText(from, s), class: "struct", sym: s, refs: []*sym{s}}
			}
		}
		return g.baseType()
	case c < 8 && depth < 2:
		e := g.anyType(from, depth+1)
		if e.class == "binary" && g.r.Chance(1, 2) {
			e = &typ{text: "string", class: "string"}
		}
		kw := "list"
		if g.r.Chance(1, 3) {
			kw = "set"
			if e.class == "struct" || e.class == "list" || e.class == "set" || e.class == "map" || e.class == "double" || e.class == "binary" || e.class == "bool" {
				e = g.keyType(from)
			}
		}
		return &typ{text: kw + "<" + e.text + ">", class: kw, elem: e, refs: e.refs}
	case depth < 2:
		k := g.keyType(from)
		v := g.anyType(from, depth+1)
		return &typ{text: "map<" + k.text + ", " + v.text + ">", class: "map", key: k, elem: v, refs: append(append([]*sym{}, k.refs...), v.refs...)}
	}
	return g.baseType()
}

// literal renders a constant value of type t as seen from file `from`.
// ok=false when no literal is produced (struct values etc.).
func (g *gen) literal(from int, t *typ, depth int) (string, []*sym, bool) {
	switch t.class {
	case "bool":
		return []string{"true", "false"}[g.r.Intn(2)], nil, true
	case "i8":
		return fmt.Sprint(g.r.Intn(200) - 100), nil, true
	case "i16":
		return fmt.Sprint(g.r.Intn(60000) - 30000), nil, true
	case "i32":
		if g.r.Chance(1, 6) {
			return fmt.Sprintf("0x%x", g.r.Intn(1<<20)), nil, true
		}
		return fmt.Sprint(g.r.Intn(2000000) - 1000000), nil, true
	case "i64":
		return fmt.Sprint(int64(g.r.Intn(1<<30))*int64(1+g.r.Intn(1000)) - 5), nil, true
	case "double":
		return fmt.Sprintf("%d.%d", g.r.Intn(1000)-500, g.r.Intn(100)), nil, true
	case "string", "binary":
		words := []string{"alpha", "beta", "gamma delta", "x/y", "a-b", "hello, world", "tab\\tsep", "", "üni"}
		q := "\""
		if g.r.Chance(1, 4) {
			q = "'"
		}
		return q + words[g.r.Intn(len(words))] + fmt.Sprint(g.r.Intn(100)) + q, nil, true
	case "enum":
		if t.sym == nil || len(t.sym.enumVals) == 0 || !g.canSee(from, t.sym) {
			return "", nil, false
		}
		v := t.sym.enumVals[g.r.Intn(len(t.sym.enumVals))]
		return g.refText(from, t.sym) + "." + v, []*sym{t.sym}, true
	case "list", "set":
		if depth > 1 || g.foreignContainerTypedef(from, t.elem) || g.foreignContainerTypedef(from, t) {
			return "", nil, false
		}
		n := g.r.Intn(4)
		if t.class == "set" || g.r.Chance(1, 2) {
			n = 2 + g.r.Intn(4)
		}
		var parts []string
		var refs []*sym
		seen := map[string]bool{}
		for i := 0; i < n; i++ {
			s, rf, ok := g.literal(from, t.elem, depth+1)
			if !ok {
				return "", nil, false
			}
			if t.class == "set" && seen[s] {
				continue
			}
			seen[s] = true
			parts = append(parts, s)
			refs = append(refs, rf...)
		}
		return "[" + strings.Join(parts, ", ") + "]", refs, true
	case "map":
		if depth > 1 || g.foreignContainerTypedef(from, t.elem) || g.foreignContainerTypedef(from, t) {
			return "", nil, false
		}
		n := 2 + g.r.Intn(5)
		var parts []string
		var refs []*sym
		seen := map[string]bool{}
		for i := 0; i < n; i++ {
			k, rk, ok := g.literal(from, t.key, depth+1)
			if !ok {
				return "", nil, false
			}
			if seen[k] {
				continue
			}
			seen[k] = true
			v, rv, ok := g.literal(from, t.elem, depth+1)
			if !ok {
				return "", nil, false
			}
			parts = append(parts, k+": "+v)
			refs = append(append(refs, rk...), rv...)
		}
		return "{" + strings.Join(parts, ", ") + "}", refs, true
	}
	return "", nil, false
}

func (g *gen) annotations(max int) string {
	if !g.r.Chance(1, 3) {
		return ""
	}
	keys := []string{"go.tag", "api.doc", "x.note", "k", "api.doc"}
	n := 1 + g.r.Intn(max)
	var parts []string
	for i := 0; i < n; i++ {
		k := keys[g.r.Intn(len(keys))]
		v := fmt.Sprintf("v%d", g.r.Intn(50))
		if k == "go.tag" {
			v = fmt.Sprintf(`json:\"j%d\"`, g.r.Intn(50))
		}
		parts = append(parts, fmt.Sprintf(`%s = "%s"`, k, v))
	}
	g.stat("annotations")
	if n > 1 {
		g.stat("multi-annotations")
	}
	return " (" + strings.Join(parts, ", ") + ")"
}

func refsOf(ss []*sym) []string {
	var out []string
	seen := map[string]bool{}
	for _, s := range ss {
		k := symRef(s)
		if !seen[k] {
			seen[k] = true
			out = append(out, k)
		}
	}
	sort.Strings(out)
	return out
}

func (g *gen) emit(fi int, l Line) {
	f := g.p.Files[fi]
	f.Lines = append(f.Lines, l)
}

func (g *gen) genEnum(fi int) {
	s := &sym{file: fi, name: g.name("E"), kind: "enum", class: "enum"}
	g.emit(fi, Line{Text: "enum " + s.name + " {", Kind: "enum-open", Owner: s.name, Defines: s.name})
	n := 1 + g.r.Intn(5)
	val := g.r.Intn(3)
	for i := 0; i < n; i++ {
		v := fmt.Sprintf("V%d_%d", g.n, i)
		txt := "  " + v
		if g.r.Chance(2, 3) {
			txt += fmt.Sprintf(" = %d", val)
		}
		val += 1 + g.r.Intn(4)
		txt += g.annotations(3)
		if g.r.Chance(1, 2) {
			txt += ","
		}
		g.emit(fi, Line{Text: txt, Kind: "enum-value", Owner: s.name, Defines: s.name + "." + v})
		s.enumVals = append(s.enumVals, v)
	}
	g.emit(fi, Line{Text: "}" + g.annotations(3), Kind: "close", Owner: s.name})
	g.syms[fi] = append(g.syms[fi], s)
	g.stat("enums")
}

func (g *gen) genTypedef(fi int) {
	t := g.anyType(fi, 0)
	s := &sym{file: fi, name: g.name("T"), kind: "typedef", target: t}
	g.emit(fi, Line{Text: "typedef " + t.text + " " + s.name + g.annotations(2), Kind: "typedef", Owner: s.name, Defines: s.name, Refs: refsOf(t.refs)})
	g.syms[fi] = append(g.syms[fi], s)
	g.stat("typedefs")
	for _, r := range t.refs {
		if r.kind == "typedef" {
			g.stat("typedef-chains")
		}
		if r.file != fi {
			g.stat("cross-file-refs")
		}
	}
}

func (g *gen) genConst(fi int) {
	var t *typ
	for try := 0; try < 4; try++ {
		t = g.anyType(fi, 0)
		if t.class != "struct" {
			break
		}
	}
	if g.r.Chance(1, 3) {
		// favour map- and set-valued constants
		k := g.keyType(fi)
		if g.r.Chance(1, 2) {
			v := g.baseType()
			if v.class == "binary" {
				v = &typ{text: "string", class: "string"}
			}
			t = &typ{text: "map<" + k.text + ", " + v.text + ">", class: "map", key: k, elem: v, refs: k.refs}
		} else {
			t = &typ{text: "set<" + k.text + ">", class: "set", elem: k, refs: k.refs}
		}
	}
	lit, refs, ok := g.literal(fi, t, 0)
	if !ok {
		return
	}
	// sometimes refer to an earlier constant of the same written type
	s := &sym{file: fi, name: g.name("C"), kind: "const", target: t}
	all := append(append([]*sym{}, t.refs...), refs...)
	g.emit(fi, Line{Text: "const " + t.text + " " + s.name + " = " + lit + g.annotations(2), Kind: "const", Owner: s.name, Defines: s.name, Refs: refsOf(all)})
	g.syms[fi] = append(g.syms[fi], s)
	g.stat("consts")
	if t.class == "map" || t.class == "set" {
		g.stat("map-or-set-consts")
	}
}

func (g *gen) genStructLike(fi int, kind string) *sym {
	prefix := map[string]string{"struct": "S", "union": "U", "exception": "X"}[kind]
	s := &sym{file: fi, name: g.name(prefix), kind: kind, class: "struct"}
	g.emit(fi, Line{Text: kind + " " + s.name + " {", Kind: "struct-open", Owner: s.name, Defines: s.name})
	n := g.r.Intn(7)
	if kind == "union" && n == 0 {
		n = 1
	}
	id := 1
	implicit := g.r.Chance(1, 8)
	for i := 0; i < n; i++ {
		t := g.anyType(fi, 0)
		fname := fmt.Sprintf("f%d_%d", g.n, i)
		if g.r.Chance(1, 4) {
			// names with a common initialism: naming styles treat them specially
			fname += []string{"_id", "_url", "_http_api", "_json", "_uuid"}[g.r.Intn(5)]
		}
		txt := "  "
		if !implicit {
			txt += fmt.Sprintf("%d: ", id)
		}
		id += 1 + g.r.Intn(3)
		req := ""
		if kind != "union" {
			req = []string{"", "required ", "optional ", "optional "}[g.r.Intn(4)]
		} else if g.r.Chance(1, 2) {
			req = "optional "
		}
		txt += req + t.text + " " + fname
		refs := append([]*sym{}, t.refs...)
		if kind != "union" && t.class != "struct" && t.class != "binary" && g.r.Chance(1, 3) {
			if lit, rf, ok := g.literal(fi, t, 0); ok {
				txt += " = " + lit
				refs = append(refs, rf...)
				g.stat("defaults")
				if t.class == "map" || t.class == "set" {
					g.stat("map-or-set-defaults")
				}
			}
		}
		txt += g.annotations(4)
		if g.r.Chance(1, 2) {
			txt += []string{",", ";"}[g.r.Intn(2)]
		}
		if g.r.Chance(1, 6) {
			// a trailing comment in somebody's own language: multi-byte characters inside a definition body
			// (a file cut short by a storage fault can end in the middle of one)
			txt += " // " + []string{"说明:字段", "café ☕ naïve", "данные поля", "μ-unit ±1", "フィールド"}[g.r.Intn(5)]
			g.stat("non-ascii-comments")
		}
		g.emit(fi, Line{Text: txt, Kind: "field", Owner: s.name, Defines: s.name + "." + fname, Refs: refsOf(refs)})
		for _, r := range refs {
			if r.file != fi {
				g.stat("cross-file-refs")
			}
		}
	}
	g.emit(fi, Line{Text: "}" + g.annotations(4), Kind: "close", Owner: s.name})
	g.syms[fi] = append(g.syms[fi], s)
	g.stat(kind + "s")
	return s
}

func (g *gen) genService(fi int) {
	s := &sym{file: fi, name: g.name("Svc"), kind: "service"}
	head := "service " + s.name
	var hrefs []*sym
	if bases := g.visible(fi, "service"); len(bases) > 0 && g.r.Chance(1, 2) {
		b := bases[g.r.Intn(len(bases))]
		head += " extends " + g.refText(fi, b)
		hrefs = append(hrefs, b)
		g.stat("service-extends")
		if b.file != fi {
			g.stat("cross-file-refs")
		}
	}
	g.emit(fi, Line{Text: head + " {", Kind: "service-open", Owner: s.name, Defines: s.name, Refs: refsOf(hrefs)})
	n := g.r.Intn(5)
	if g.opts.Rich {
		n = 2 + g.r.Intn(5)
	}
	for i := 0; i < n; i++ {
		fn := fmt.Sprintf("m%d_%d", g.n, i)
		var refs []*sym
		oneway := g.r.Chance(1, 6)
		ret := "void"
		if !oneway && g.r.Chance(2, 3) {
			t := g.anyType(fi, 0)
			ret = t.text
			refs = append(refs, t.refs...)
		}
		var args []string
		na := g.r.Intn(4)
		for a := 0; a < na; a++ {
			t := g.anyType(fi, 0)
			args = append(args, fmt.Sprintf("%d: %s a%d", a+1, t.text, a))
			refs = append(refs, t.refs...)
		}
		txt := "  "
		if oneway {
			txt += "oneway "
		}
		txt += ret + " " + fn + "(" + strings.Join(args, ", ") + ")"
		if !oneway {
			xs := g.visible(fi, "exception")
			if len(xs) > 0 && (g.r.Chance(1, 2) || g.opts.Rich) {
				k := 1 + g.r.Intn(3)
				var th []string
				used := map[*sym]bool{}
				for j := 0; j < k; j++ {
					x := xs[g.r.Intn(len(xs))]
					if used[x] {
						continue
					}
					used[x] = true
					th = append(th, fmt.Sprintf("%d: %s e%d", j+1, g.refText(fi, x), j))
					refs = append(refs, x)
				}
				txt += " throws (" + strings.Join(th, ", ") + ")"
				if len(th) > 1 {
					g.stat("multi-throws")
				}
			}
		}
		txt += g.annotations(3)
		if g.r.Chance(1, 2) {
			txt += ","
		}
		g.emit(fi, Line{Text: txt, Kind: "function", Owner: s.name, Defines: s.name + "." + fn, Refs: refsOf(refs)})
	}
	g.emit(fi, Line{Text: "}" + g.annotations(3), Kind: "close", Owner: s.name})
	g.syms[fi] = append(g.syms[fi], s)
	g.stat("services")
}

// Generate builds a program.  File 0 is the main file; file i includes only
// files with a larger index (so the include graph is a DAG, with diamonds).
func Generate(r Rand, o Options) *Program {
	if o.MaxFiles <= 0 {
		o.MaxFiles = 5
	}
	if o.MaxDefs <= 0 {
		o.MaxDefs = 8
	}
	g := &gen{r: r, p: &Program{Stats: map[string]int{}}, opts: o}
	nf := 1 + r.Intn(o.MaxFiles)
	dirs := []string{"", "", "sub/", "sub/deep/", "other/"}
	usedBase := map[string]int{}
	twins := o.Twins
	if twins {
		nf = 5
	}
	for i := 0; i < nf; i++ {
		base := fmt.Sprintf("f%d", i)
		if i == 0 {
			base = "main"
		}
		d := dirs[r.Intn(len(dirs))]
		if i == 0 {
			d = ""
		}
		if twins {
			// main -> d1/u, d2/v ; d1/u -> d1/base ; d2/v -> d2/base   (both written include "base.thrift")
			base = []string{"main", "u", "v", "base", "base"}[i]
			d = []string{"", "d1/", "d2/", "d1/", "d2/"}[i]
		}
		g.p.Files = append(g.p.Files, &File{Path: d + base + ".thrift", Base: base})
		usedBase[base]++
	}
	g.syms = make([][]*sym, nf)
	// include edges: i -> j for j > i; make sure every file is reachable from main
	for j := 1; j < nf && !twins; j++ {
		parent := r.Intn(j)
		g.p.Files[parent].Includes = append(g.p.Files[parent].Includes, j)
	}
	if twins {
		g.p.Files[0].Includes = []int{1, 2}
		g.p.Files[1].Includes = []int{3}
		g.p.Files[2].Includes = []int{4}
		g.stat("twin-layouts")
	}
	for i := 0; i < nf && !twins; i++ {
		for j := i + 1; j < nf; j++ {
			has := false
			for _, x := range g.p.Files[i].Includes {
				if x == j {
					has = true
				}
			}
			if !has && r.Chance(1, 3) {
				g.p.Files[i].Includes = append(g.p.Files[i].Includes, j)
				g.stat("extra-include-edges")
			}
		}
		sort.Ints(g.p.Files[i].Includes)
	}
	// definitions are generated from the leaves up so that references point to existing symbols
	for fi := nf - 1; fi >= 0; fi-- {
		f := g.p.Files[fi]
		g.emit(fi, Line{Text: fmt.Sprintf("namespace go gen.%s%d", f.Base, fi), Kind: "namespace"})
		if r.Chance(1, 4) {
			g.emit(fi, Line{Text: fmt.Sprintf("namespace java com.example.%s", f.Base), Kind: "namespace"})
		}
		for _, inc := range f.Includes {
			// the include path is relative to the including file's directory
			rel := RelPath(path.Dir(f.Path), g.p.Files[inc].Path)
			g.emit(fi, Line{Text: fmt.Sprintf("include \"%s\"", rel), Kind: "include", IncRef: inc + 1})
		}
		nd := 1 + r.Intn(o.MaxDefs)
		for d := 0; d < nd; d++ {
			c := r.Intn(12)
			if o.Rich && r.Chance(1, 3) {
				c = []int{4, 5, 10, 11}[r.Intn(4)] // more constants and services
			}
			switch {
			case c < 2:
				g.genEnum(fi)
			case c < 4:
				g.genTypedef(fi)
			case c < 6:
				g.genConst(fi)
			case c < 9:
				g.genStructLike(fi, "struct")
			case c < 10:
				g.genStructLike(fi, []string{"union", "exception"}[r.Intn(2)])
			default:
				want := 1
				if o.Rich {
					want = 2 + r.Intn(2)
				}
				for len(g.visible(fi, "exception")) < want && r.Chance(2, 3) {
					g.genStructLike(fi, "exception")
				}
				g.genService(fi)
			}
		}
	}
	g.p.Stats["files"] = nf
	return g.p
}

func RelPath(fromDir, to string) string {
	if fromDir == "." || fromDir == "" {
		return to
	}
	fd := strings.Split(fromDir, "/")
	td := strings.Split(to, "/")
	i := 0
	for i < len(fd) && i < len(td)-1 && fd[i] == td[i] {
		i++
	}
	var parts []string
	for j := i; j < len(fd); j++ {
		parts = append(parts, "..")
	}
	parts = append(parts, td[i:]...)
	return strings.Join(parts, "/")
}

// Referenced reports whether some line other than those owned by `owner`
// references the symbol file:name.
func (p *Program) Referenced(file int, name string) bool {
	key := fmt.Sprintf("%d:%s", file, name)
	for _, f := range p.Files {
		for _, l := range f.Lines {
			for _, r := range l.Refs {
				if r == key {
					return true
				}
			}
		}
	}
	return false
}
