package drv

import (
	"encoding/json"
	"fmt"
	"sort"
	"strings"

	"verif/sim/c12model"

	"github.com/cloudwego/thriftgo/generator"
	"github.com/cloudwego/thriftgo/generator/backend"
	"github.com/cloudwego/thriftgo/internal/verifsim/simrt"
	"github.com/cloudwego/thriftgo/plugin"
)

// C12 — output assembly.  Histories of Feed calls by several parties into the
// real FileManager, checked against a relational reference model that says
// exactly what the statement says and is silent where it is silent.

type (
	C12Item = c12model.Item
	C12Feed = c12model.Feed
	C12Work = c12model.Work
)

type c12Driver struct{}

func init() { drivers["c12"] = c12Driver{} }

// names are opaque strings to the file manager; the ones that are not in canonical path form alias no other name of the list
var c12Names = []string{"a.go", "b.go", "gen/a.go", "a_1.go", "./c.go", "a_2.go", "b_1.go", "k", "gen//d.go", "k_1", "x.txt", "gen/a_1.go", "y/../e.go", "./gen-go/f.go"}
var c12Points = []string{"p", "q", "imports", "$.x", "A_1", "", "my-hook", "kitex:handler"}

func marker(p string) string { return "@@thriftgo_insertion_point(" + p + ")" }

func (c12Driver) Gen(seed uint64, tier string) *simrt.Spec {
	r := simrt.NewRand(seed)
	sp := &simrt.Spec{Kind: "c12", Seed: seed, MapMode: []string{"random", "random", "reversed", "sorted"}[r.Intn(4)]}
	var w C12Work
	nonce := 0
	tok := func(kind string) string { nonce++; return fmt.Sprintf("<%s%d>", kind, nonce) }
	names := c12Names[:2+r.Intn(len(c12Names)-1)]
	points := c12Points[:1+r.Intn(len(c12Points))]
	// contents submitted so far per name, to produce identical duplicates on purpose
	submitted := map[string][]string{}
	crossUsed := false
	conflicted := map[string]bool{}
	fileBody := func() string {
		var sb strings.Builder
		k := r.Intn(5)
		for i := 0; i < k; i++ {
			sb.WriteString(tok("t"))
			switch r.Intn(8) {
			case 0:
				sb.WriteString("@@thriftgo_insertion_point(not-a-point)") // not recognised: must stay
			case 1:
				sb.WriteString("@@thriftgo_insertion_point(") // unterminated: must stay
			default:
				sb.WriteString(marker(points[r.Intn(len(points))]))
			}
			if r.Chance(1, 4) {
				sb.WriteString("\n")
			}
		}
		sb.WriteString(tok("e"))
		return sb.String()
	}
	nf := 1 + r.Intn(5)
	if r.Chance(1, 6) {
		nf = 4 + r.Intn(6)
	}
	srcs := []string{"thriftgo", "plugA", "plugB", "plugC", "sdk"}
	for f := 0; f < nf; f++ {
		fd := C12Feed{Src: srcs[f%len(srcs)]}
		ni := r.Intn(7)
		if r.Chance(1, 40) {
			// leading unnamed patch: Feed must fail
			fd.Items = append(fd.Items, C12Item{IP: points[r.Intn(len(points))], IPSet: true, Content: tok("P")})
		}
		for i := 0; i < ni; i++ {
			switch c := r.Intn(10); {
			case c < 5: // named file
				nm := names[r.Intn(len(names))]
				body := fileBody()
				if prev := submitted[nm]; len(prev) > 0 && r.Chance(1, 3) {
					body = prev[r.Intn(len(prev))] // identical duplicate
				} else if len(prev) > 0 && !crossUsed && r.Chance(1, 4) {
					// once per history: a later file of an existing name carries the text of the first file of
					// ANOTHER name - equal text under different names is a conflict, not a duplicate
					var others []string
					for o, subs := range submitted {
						if o != nm && len(subs) == 1 && !conflicted[o] {
							others = append(others, o)
						}
					}
					sort.Strings(others)
					if len(others) > 0 {
						o := others[r.Intn(len(others))]
						body = submitted[o][0]
						crossUsed = true
						conflicted[o] = true // no further submissions play with that text
					}
				}
				if len(submitted[nm]) > 0 && body != submitted[nm][0] {
					conflicted[nm] = true
				}
				submitted[nm] = append(submitted[nm], body)
				fd.Items = append(fd.Items, C12Item{Name: nm, Content: body})
			case c < 8: // unnamed patch (bound to the previous named item)
				if len(fd.Items) == 0 {
					continue
				}
				pt := points[r.Intn(len(points))]
				if r.Chance(1, 10) {
					pt = "absent"
				}
				fd.Items = append(fd.Items, C12Item{IP: pt, IPSet: pt != "" || r.Chance(1, 2), Content: tok("P")})
			default: // named patch to an existing, never conflicted name
				var cands []string
				for n := range submitted {
					if !conflicted[n] {
						cands = append(cands, n)
					}
				}
				sort.Strings(cands)
				if len(cands) == 0 {
					continue
				}
				pt := points[r.Intn(len(points))]
				if pt == "" {
					pt = "p"
				}
				fd.Items = append(fd.Items, C12Item{Name: cands[r.Intn(len(cands))], IP: pt, IPSet: true, Content: tok("N")})
			}
		}
		w.Feeds = append(w.Feeds, fd)
	}
	w.Twice = r.Chance(1, 5)
	w.ViaGenerator = r.Chance(1, 4)
	if w.ViaGenerator && r.Chance(1, 2) {
		w.Twice = true
	}
	w.Fresh = w.Twice && r.Chance(1, 2)
	sp.Driver, _ = json.Marshal(w)
	return sp
}

func (c12Driver) Run(spec *simrt.Spec, agg *Agg, keep bool) *Outcome {
	var work C12Work
	_ = json.Unmarshal(spec.Driver, &work)
	o := &Outcome{}

	w := simrt.NewWorld(spec)
	var resp *plugin.Response
	var feedErr error
	errAt := -1
	res := w.Run(func() {
		// what the parties hand in: built once; a party that keeps its objects hands the same ones
		// in again in a later generation (work.Twice), and they must still say what they said
		build := func() [][]*plugin.Generated {
			all := make([][]*plugin.Generated, len(work.Feeds))
			for fi, fd := range work.Feeds {
				for i := range fd.Items {
					it := &fd.Items[i]
					g := &plugin.Generated{Content: it.Content}
					if it.Name != "" {
						nm := it.Name
						g.Name = &nm
					}
					if it.IP != "" || it.IPSet {
						ip := it.IP
						g.InsertionPoint = &ip
					}
					all[fi] = append(all[fi], g)
				}
			}
			return all
		}
		all := build()
		gens := 1
		if work.Twice {
			gens = 2
		}
		if work.ViaGenerator && len(work.Feeds) > 0 {
			// the same history through Generator.Generate: one Generator for all generations, the first
			// party is the backend, the others are SDK plugins
			var g generator.Generator
			c12Be := &c12Backend{files: all[0]}
			_ = g.RegisterBackend(c12Be)
			var sdks []plugin.SDKPlugin
			for fi := 1; fi < len(work.Feeds); fi++ {
				sdks = append(sdks, &c12SDK{name: work.Feeds[fi].Src, files: all[fi]})
			}
			for gen := 0; gen < gens; gen++ {
				if gen > 0 && work.Fresh {
					// the same command again: newly built objects that say the same
					fresh := build()
					c12Be.files = fresh[0]
					for k, sp := range sdks {
						sp.(*c12SDK).files = fresh[k+1]
					}
				}
				r := g.Generate(&generator.Arguments{Out: &generator.LangSpec{Language: "c12", SDKPlugins: sdks}, Req: &plugin.Request{Language: "c12", OutputPath: "."}, Log: backend.DummyLogFunc()})
				if e := r.GetError(); e != "" {
					feedErr, errAt = fmt.Errorf("%s", e), -2
					return
				}
				resp = r
			}
			return
		}
		for gen := 0; gen < gens; gen++ {
			if gen > 0 && work.Fresh {
				all = build()
			}
			fm := generator.NewFileManager(backend.DummyLogFunc())
			for fi, fd := range work.Feeds {
				if err := fm.Feed(fd.Src, all[fi]); err != nil {
					feedErr, errAt = err, fi
					return
				}
			}
			resp = fm.BuildResponse()
		}
	})
	agg.merge(res)
	o.LogHash, o.SchedFP, o.Branching = res.LogHash, res.SchedFP, res.Branching
	if keep {
		o.Result = res
	}
	fail := func(class, sig, f string, a ...interface{}) *Outcome {
		if o.Class == "" {
			o.Class, o.Sig, o.Msg = class, sig, fmt.Sprintf(f, a...)
		}
		return o
	}
	if res.ExitHow != "return" {
		return fail("crash", "crash", "%s %s %s", res.ExitHow, res.Verdict, firstLines(res.Panic, 10))
	}
	nItems, nPatches, nNamedPatches := 0, 0, 0
	for _, fd := range work.Feeds {
		for _, it := range fd.Items {
			nItems++
			if it.Name == "" {
				nPatches++
			} else if it.IP != "" {
				nNamedPatches++
			}
		}
	}
	// first pass without a response: is the history defined, does it have to end in an error?
	pre := c12model.Judge(&work, nil, nil)
	if pre.Undefined != "" {
		agg.Count("runs.outside-defined-domain", 1)
		return o
	}
	if pre.FeedErrAt >= 0 {
		agg.Count("probe.leading-unnamed-patch", 1)
		if feedErr == nil || (errAt != pre.FeedErrAt && errAt != -2) {
			return fail("no-target-accepted", "no-target-accepted", "Feed call %d starts with an unnamed patch but no error was returned at that call (error=%v at call %d)", pre.FeedErrAt, feedErr, errAt)
		}
		o.Nontrivial = true
		o.CaseKey = "err|" + string(spec.Driver)
		return o
	}
	if feedErr != nil {
		return fail("spurious-feed-error", "spurious-feed-error", "Feed call %d returned %v for a well-formed submission", errAt, feedErr)
	}
	var rfs []c12model.RespFile
	for _, g := range resp.Contents {
		rfs = append(rfs, c12model.RespFile{Name: g.GetName(), Content: g.Content})
	}
	if rfs == nil {
		rfs = []c12model.RespFile{}
	}
	v := c12model.Judge(&work, rfs, nil)
	if v.Undefined != "" {
		agg.Count("runs.outside-defined-domain", 1)
		return o
	}
	if v.Class != "" {
		return fail(v.Class, v.Sig, "%s", v.Msg)
	}
	if v.Renamed > 0 {
		agg.Count("probe.renamed", 1)
	}
	if v.Dropped > 0 {
		agg.Count("probe.dropped-duplicate", 1)
	}
	if nNamedPatches > 0 {
		agg.Count("probe.named-patch", 1)
	}
	agg.State(fmt.Sprintf("kept=%d dropped=%d renamed=%d patches=%d named=%d", bucket(v.Kept), bucket(v.Dropped), bucket(v.Renamed), bucket(nPatches), bucket(nNamedPatches)))
	o.Nontrivial = nItems >= 2
	o.CaseKey = string(spec.Driver)
	o.Detail, _ = json.Marshal(map[string]interface{}{"feeds": len(work.Feeds), "items": nItems, "kept": v.Kept, "dropped": v.Dropped, "renamed": v.Renamed, "patches": nPatches})
	return o
}

// c12Backend / c12SDK: the parties of a history that goes through Generator.Generate
type c12Backend struct{ files []*plugin.Generated }

func (b *c12Backend) Name() string                              { return "c12" }
func (b *c12Backend) Lang() string                              { return "c12" }
func (b *c12Backend) Options() []plugin.Option                  { return nil }
func (b *c12Backend) BuiltinPlugins() []*plugin.Desc            { return nil }
func (b *c12Backend) GetPlugin(desc *plugin.Desc) plugin.Plugin { return nil }
func (b *c12Backend) Generate(req *plugin.Request, log backend.LogFunc) *plugin.Response {
	return &plugin.Response{Contents: b.files}
}

type c12SDK struct {
	name  string
	files []*plugin.Generated
}

func (s *c12SDK) Invoke(req *plugin.Request) *plugin.Response {
	return &plugin.Response{Contents: s.files}
}
func (s *c12SDK) GetName() string               { return s.name }
func (s *c12SDK) GetPluginParameters() []string { return nil }

func clipList(l []string) string {
	var out []string
	for _, s := range l {
		out = append(out, clip(s))
	}
	return strings.Join(out, " | ")
}
