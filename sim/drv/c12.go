package drv

import (
	"encoding/json"
	"fmt"
	"regexp"
	"sort"
	"strings"

	"github.com/cloudwego/thriftgo/generator"
	"github.com/cloudwego/thriftgo/generator/backend"
	"github.com/cloudwego/thriftgo/internal/verifsim/simrt"
	"github.com/cloudwego/thriftgo/plugin"
)

// C12 — output assembly.  Histories of Feed calls by several parties into the
// real FileManager, checked against a relational reference model that says
// exactly what the statement says and is silent where it is silent.

type C12Item struct {
	Name    string `json:"name,omitempty"` // "" = unnamed patch
	IP      string `json:"ip,omitempty"`   // insertion point (patches)
	IPSet   bool   `json:"ip_set,omitempty"`
	Content string `json:"content"`
}

type C12Feed struct {
	Src   string    `json:"src"`
	Items []C12Item `json:"items"`
}

type C12Work struct {
	Feeds []C12Feed `json:"feeds"`
}

type c12Driver struct{}

func init() { drivers["c12"] = c12Driver{} }

var c12Names = []string{"a.go", "b.go", "gen/a.go", "a_1.go", "a_2.go", "b_1.go", "k", "k_1", "x.txt", "gen/a_1.go"}
var c12Points = []string{"p", "q", "imports", "$.x", "A_1", ""}

func marker(p string) string { return "@@thriftgo_insertion_point(" + p + ")" }

func (c12Driver) Gen(seed uint64, tier string) *simrt.Spec {
	r := simrt.NewRand(seed)
	sp := &simrt.Spec{Kind: "c12", Seed: seed, MapMode: []string{"random", "random", "reversed", "sorted"}[r.Intn(4)]}
	var w C12Work
	nonce := 0
	tok := func(kind string) string { nonce++; return fmt.Sprintf("<%s%d>", kind, nonce) }
	names := c12Names[:2+r.Intn(len(c12Names)-1)]
	points := c12Points[:1+r.Intn(len(c12Points))]
	// contents submitted so far per name, to produce identical duplicates on purpose
	submitted := map[string][]string{}
	conflicted := map[string]bool{}
	fileBody := func() string {
		var sb strings.Builder
		k := r.Intn(5)
		for i := 0; i < k; i++ {
			sb.WriteString(tok("t"))
			switch r.Intn(8) {
			case 0:
				sb.WriteString("@@thriftgo_insertion_point(not-a-point)") // not recognised: must stay
			case 1:
				sb.WriteString("@@thriftgo_insertion_point(") // unterminated: must stay
			default:
				sb.WriteString(marker(points[r.Intn(len(points))]))
			}
			if r.Chance(1, 4) {
				sb.WriteString("\n")
			}
		}
		sb.WriteString(tok("e"))
		return sb.String()
	}
	nf := 1 + r.Intn(5)
	if r.Chance(1, 6) {
		nf = 4 + r.Intn(6)
	}
	srcs := []string{"thriftgo", "plugA", "plugB", "plugC", "sdk"}
	for f := 0; f < nf; f++ {
		fd := C12Feed{Src: srcs[f%len(srcs)]}
		ni := r.Intn(7)
		if r.Chance(1, 40) {
			// leading unnamed patch: Feed must fail
			fd.Items = append(fd.Items, C12Item{IP: points[r.Intn(len(points))], IPSet: true, Content: tok("P")})
		}
		for i := 0; i < ni; i++ {
			switch c := r.Intn(10); {
			case c < 5: // named file
				nm := names[r.Intn(len(names))]
				body := fileBody()
				if prev := submitted[nm]; len(prev) > 0 && r.Chance(1, 3) {
					body = prev[r.Intn(len(prev))] // identical duplicate
				}
				if len(submitted[nm]) > 0 && body != submitted[nm][0] {
					conflicted[nm] = true
				}
				submitted[nm] = append(submitted[nm], body)
				fd.Items = append(fd.Items, C12Item{Name: nm, Content: body})
			case c < 8: // unnamed patch (bound to the previous named item)
				if len(fd.Items) == 0 {
					continue
				}
				pt := points[r.Intn(len(points))]
				if r.Chance(1, 10) {
					pt = "absent"
				}
				fd.Items = append(fd.Items, C12Item{IP: pt, IPSet: pt != "" || r.Chance(1, 2), Content: tok("P")})
			default: // named patch to an existing, never conflicted name
				var cands []string
				for n := range submitted {
					if !conflicted[n] {
						cands = append(cands, n)
					}
				}
				sort.Strings(cands)
				if len(cands) == 0 {
					continue
				}
				pt := points[r.Intn(len(points))]
				if pt == "" {
					pt = "p"
				}
				fd.Items = append(fd.Items, C12Item{Name: cands[r.Intn(len(cands))], IP: pt, IPSet: true, Content: tok("N")})
			}
		}
		w.Feeds = append(w.Feeds, fd)
	}
	sp.Driver, _ = json.Marshal(w)
	return sp
}

// ---- reference model ----
//
// The model is relational.  It follows the submissions in order and keeps a
// table of the files of the assembled output (name, submitted content, patches).
// The spelling of a fresh name is not specified by the statement, so the model
// reads it off the response: a kept file whose submitted name is taken is bound
// to a not-yet-bound response entry whose content has the submitted content's
// literal text in order (contents carry unique nonces).  Everything else — which
// files are kept or dropped, which patches go where, in what order, what the
// final text is, that names are pairwise distinct and fresh — is the model's.

var c12MarkerRe = regexp.MustCompile(`@@thriftgo_insertion_point\(([$.0-9a-zA-Z_]*)\)`)
var c12MarkerLike = regexp.MustCompile(`@@thriftgo_insertion_point`)

type c12Entry struct {
	name        string
	submitted   string // submitted name
	renamedFrom string // "" if it holds its submitted name
	content     string
	patches     map[string][]string // point -> patch texts in submission order
	respIdx     int
}

type c12Verdict struct {
	class, sig, msg string
	undefined       string
	feedErrAt       int // >=0: that Feed call must return an error and end the history
	kept, dropped, renamed int
}

func (e *c12Entry) expected() string {
	return c12MarkerRe.ReplaceAllStringFunc(e.content, func(mk string) string {
		p := c12MarkerRe.FindStringSubmatch(mk)[1]
		return strings.Join(e.patches[p], "")
	})
}

// skeleton matches any text that contains the literal segments of content in order.
func skeleton(content string) *regexp.Regexp {
	segs := c12MarkerRe.Split(content, -1)
	var sb strings.Builder
	sb.WriteString(`(?s)^`)
	for i, sg := range segs {
		if i > 0 {
			sb.WriteString(`.*`)
		}
		sb.WriteString(regexp.QuoteMeta(sg))
	}
	sb.WriteString(`$`)
	return regexp.MustCompile(sb.String())
}

// judgeC12 runs the model over the history against the response.
func judgeC12(w *C12Work, resp *plugin.Response) *c12Verdict {
	v := &c12Verdict{feedErrAt: -1}
	var table []*c12Entry
	byName := map[string]*c12Entry{}
	bound := map[int]bool{}
	var rnames []string
	var rcontents []string
	if resp != nil {
		for _, g := range resp.Contents {
			rnames = append(rnames, g.GetName())
			rcontents = append(rcontents, g.Content)
		}
	}
	// names ever submitted with two different contents: named patches to them are outside the defined domain
	contents := map[string]map[string]bool{}
	for _, fd := range w.Feeds {
		for _, it := range fd.Items {
			if it.Name != "" && it.IP == "" {
				if contents[it.Name] == nil {
					contents[it.Name] = map[string]bool{}
				}
				contents[it.Name][it.Content] = true
			}
		}
	}
	bad := func(class, sig, f string, a ...interface{}) *c12Verdict {
		if v.class == "" {
			v.class, v.sig, v.msg = class, sig, fmt.Sprintf(f, a...)
		}
		return v
	}
	for fi, fd := range w.Feeds {
		var last *c12Entry
		lastSet, lastDropped := false, false
		for _, it := range fd.Items {
			if it.Name == "" {
				if !lastSet {
					v.feedErrAt = fi
					return v
				}
				if c12MarkerLike.MatchString(it.Content) {
					v.undefined = "patch text contains marker-like text"
					return v
				}
				if lastDropped || last == nil {
					continue
				}
				last.patches[it.IP] = append(last.patches[it.IP], it.Content)
				continue
			}
			if it.IP != "" {
				e := byName[it.Name]
				if e == nil {
					v.undefined = "named patch for a name that does not exist yet"
					return v
				}
				if len(contents[it.Name]) > 1 || e.renamedFrom != "" {
					v.undefined = "named patch for a name that is in conflict"
					return v
				}
				if c12MarkerLike.MatchString(it.Content) {
					v.undefined = "patch text contains marker-like text"
					return v
				}
				e.patches[it.IP] = append(e.patches[it.IP], it.Content)
				last, lastSet, lastDropped = e, true, false
				continue
			}
			// a named file
			lastSet = true
			holder := byName[it.Name]
			if holder == nil {
				e := &c12Entry{name: it.Name, submitted: it.Name, content: it.Content, patches: map[string][]string{}, respIdx: -1}
				if resp != nil {
					for i, n := range rnames {
						if n == it.Name && !bound[i] {
							e.respIdx = i
							bound[i] = true
							break
						}
					}
					if e.respIdx < 0 {
						return bad("missing-file", "missing-file", "file %q (first of its name) is not in the response", it.Name)
					}
				}
				table = append(table, e)
				byName[it.Name] = e
				last, lastDropped = e, false
				v.kept++
				continue
			}
			if holder.content == it.Content {
				last, lastDropped = nil, true
				v.dropped++
				continue
			}
			// different content: kept under a fresh unique name — unless it repeats a renamed sibling of the same name
			sibling := false
			for _, e := range table {
				if e.renamedFrom == it.Name && e.content == it.Content {
					sibling = true
				}
			}
			idx := -1
			if resp != nil {
				sk := skeleton(it.Content)
				for i := range rnames {
					if !bound[i] && sk.MatchString(rcontents[i]) {
						idx = i
						break
					}
				}
			}
			if idx < 0 {
				if sibling || resp == nil {
					last, lastDropped = nil, true
					v.dropped++
					continue
				}
				return bad("missing-file", "missing-file", "a later file submitted as %q with content different from the existing one is not in the response under any name", it.Name)
			}
			fresh := rnames[idx]
			if other, taken := byName[fresh]; taken {
				sig := "duplicate-name"
				if other.renamedFrom == "" {
					sig = "duplicate-name:fresh-name-equals-independently-submitted-name"
				}
				return bad("duplicate-name", sig, "a later %q was kept under the name %q, which is already the name of another file of the output", it.Name, fresh)
			}
			e := &c12Entry{name: fresh, submitted: it.Name, renamedFrom: it.Name, content: it.Content, patches: map[string][]string{}, respIdx: idx}
			bound[idx] = true
			table = append(table, e)
			byName[fresh] = e
			last, lastDropped = e, false
			v.kept++
			v.renamed++
		}
	}
	if resp == nil {
		return v
	}
	seen := map[string]bool{}
	for _, n := range rnames {
		if seen[n] {
			return bad("duplicate-name", "duplicate-name", "the response holds two files named %q", n)
		}
		seen[n] = true
	}
	for i := range rnames {
		if !bound[i] {
			return bad("extra-file", "extra-file", "the response holds %q, which corresponds to no kept submission (a duplicate that should have been dropped, or a foreign file)", rnames[i])
		}
	}
	for _, e := range table {
		exp := e.expected()
		if rcontents[e.respIdx] != exp {
			cls := "wrong-content"
			if e.renamedFrom != "" {
				cls = "wrong-content-renamed"
			}
			return bad(cls, cls, "file %q (submitted as %q): got %q want %q", e.name, e.submitted, clip(rcontents[e.respIdx]), clip(exp))
		}
		if c12MarkerRe.MatchString(rcontents[e.respIdx]) {
			return bad("marker-left", "marker-left", "file %q still contains an insertion-point marker", e.name)
		}
	}
	return v
}

func (c12Driver) Run(spec *simrt.Spec, agg *Agg, keep bool) *Outcome {
	var work C12Work
	_ = json.Unmarshal(spec.Driver, &work)
	o := &Outcome{}

	w := simrt.NewWorld(spec)
	var resp *plugin.Response
	var feedErr error
	errAt := -1
	res := w.Run(func() {
		fm := generator.NewFileManager(backend.DummyLogFunc())
		for fi, fd := range work.Feeds {
			var items []*plugin.Generated
			for i := range fd.Items {
				it := &fd.Items[i]
				g := &plugin.Generated{Content: it.Content}
				if it.Name != "" {
					nm := it.Name
					g.Name = &nm
				}
				if it.IP != "" || it.IPSet {
					ip := it.IP
					g.InsertionPoint = &ip
				}
				items = append(items, g)
			}
			if err := fm.Feed(fd.Src, items); err != nil {
				feedErr, errAt = err, fi
				return
			}
		}
		resp = fm.BuildResponse()
	})
	agg.merge(res)
	o.LogHash, o.SchedFP, o.Branching = res.LogHash, res.SchedFP, res.Branching
	if keep {
		o.Result = res
	}
	fail := func(class, sig, f string, a ...interface{}) *Outcome {
		if o.Class == "" {
			o.Class, o.Sig, o.Msg = class, sig, fmt.Sprintf(f, a...)
		}
		return o
	}
	if res.ExitHow != "return" {
		return fail("crash", "crash", "%s %s %s", res.ExitHow, res.Verdict, firstLines(res.Panic, 10))
	}
	nItems, nPatches, nNamedPatches := 0, 0, 0
	for _, fd := range work.Feeds {
		for _, it := range fd.Items {
			nItems++
			if it.Name == "" {
				nPatches++
			} else if it.IP != "" {
				nNamedPatches++
			}
		}
	}
	// first pass without a response: is the history defined, does it have to end in an error?
	pre := judgeC12(&work, nil)
	if pre.undefined != "" {
		agg.Count("runs.outside-defined-domain", 1)
		return o
	}
	if pre.feedErrAt >= 0 {
		agg.Count("probe.leading-unnamed-patch", 1)
		if feedErr == nil || errAt != pre.feedErrAt {
			return fail("no-target-accepted", "no-target-accepted", "Feed call %d starts with an unnamed patch but no error was returned at that call (error=%v at call %d)", pre.feedErrAt, feedErr, errAt)
		}
		o.Nontrivial = true
		o.CaseKey = "err|" + string(spec.Driver)
		return o
	}
	if feedErr != nil {
		return fail("spurious-feed-error", "spurious-feed-error", "Feed call %d returned %v for a well-formed submission", errAt, feedErr)
	}
	v := judgeC12(&work, resp)
	if v.undefined != "" {
		agg.Count("runs.outside-defined-domain", 1)
		return o
	}
	if v.class != "" {
		return fail(v.class, v.sig, "%s", v.msg)
	}
	if v.renamed > 0 {
		agg.Count("probe.renamed", 1)
	}
	if v.dropped > 0 {
		agg.Count("probe.dropped-duplicate", 1)
	}
	if nNamedPatches > 0 {
		agg.Count("probe.named-patch", 1)
	}
	agg.State(fmt.Sprintf("kept=%d dropped=%d renamed=%d patches=%d named=%d", bucket(v.kept), bucket(v.dropped), bucket(v.renamed), bucket(nPatches), bucket(nNamedPatches)))
	o.Nontrivial = nItems >= 2
	o.CaseKey = string(spec.Driver)
	o.Detail, _ = json.Marshal(map[string]interface{}{"feeds": len(work.Feeds), "items": nItems, "kept": v.kept, "dropped": v.dropped, "renamed": v.renamed, "patches": nPatches})
	return o
}

func clipList(l []string) string {
	var out []string
	for _, s := range l {
		out = append(out, clip(s))
	}
	return strings.Join(out, " | ")
}
