package drv

import (
	"bytes"
	"encoding/json"
	"fmt"
	"regexp"
	"runtime/debug"
	"strings"
	"sync"

	"github.com/cloudwego/thriftgo/fieldmask"
	"github.com/cloudwego/thriftgo/internal/verifsim/simrt"
	"github.com/cloudwego/thriftgo/parser"
	"github.com/cloudwego/thriftgo/thrift_reflection"
)

// C14 (JSON transport and cache facet).  Masks are built by the library from
// generated valid paths; decided are: stable JSON text, JSON round trip,
// histories of Marshal/Unmarshal/MarshalJSON/UnmarshalJSON by simulated
// concurrent callers over the caches and the buffer pool, and corrupted
// documents / path strings (error or mask, never a panic).

// Two descriptor universes registered under the same file name: the named type Bag is a map in the
// first and a list in the second (what two services sharing an IDL path may well have).
const c14IDLTypedef1 = "typedef map<string, string> Bag\n"
const c14IDLTypedef2 = "typedef list<string> Bag\n"

const c14IDL = `
struct Leaf { 1: i32 A, 2: string B, 3: list<i32> L, 63: i32 Edge, 70: i64 Big, 300: string Far }
struct Mid {
  1: Leaf X, 2: list<Leaf> Ls, 3: map<string, Leaf> SM, 4: map<i32, Leaf> IM, 5: set<string> Ss,
  6: Bag Plain, 7: list<list<Leaf>> LL, 63: Leaf Z, 64: Leaf Y
}
struct Root {
  1: Mid M, 2: list<Mid> Ms, 3: map<string, Mid> SMM, 4: map<i64, Mid> IMM, 5: string S, 6: Leaf Lf,
  100: Mid M2, 32767: i32 Last
}
`

type c14Node struct {
	kind   string // struct list strmap intmap scalar
	fields []c14Field
	elem   *c14Node
}

type c14Field struct {
	name string
	id   int16
	n    *c14Node
}

var (
	c14Scalar = &c14Node{kind: "scalar"}
	c14Leaf   = &c14Node{kind: "struct", fields: []c14Field{{"A", 1, c14Scalar}, {"B", 2, c14Scalar}, {"L", 3, &c14Node{kind: "list", elem: c14Scalar}}, {"Edge", 63, c14Scalar}, {"Big", 70, c14Scalar}, {"Far", 300, c14Scalar}}}
	c14Mid    = c14MakeMid(&c14Node{kind: "strmap", elem: c14Scalar})
	c14Mid2   = c14MakeMid(&c14Node{kind: "list", elem: c14Scalar})
	c14Root   = c14MakeRoot(c14Mid)
	c14Root2  = c14MakeRoot(c14Mid2)
	c14Descs  [2]*thrift_reflection.TypeDescriptor
)

func c14MakeMid(plain *c14Node) *c14Node {
	return &c14Node{kind: "struct", fields: []c14Field{
		{"X", 1, c14Leaf}, {"Ls", 2, &c14Node{kind: "list", elem: c14Leaf}}, {"SM", 3, &c14Node{kind: "strmap", elem: c14Leaf}},
		{"IM", 4, &c14Node{kind: "intmap", elem: c14Leaf}}, {"Ss", 5, &c14Node{kind: "list", elem: c14Scalar}},
		{"Plain", 6, plain}, {"LL", 7, &c14Node{kind: "list", elem: &c14Node{kind: "list", elem: c14Leaf}}}, {"Z", 63, c14Leaf}, {"Y", 64, c14Leaf}}}
}

func c14MakeRoot(mid *c14Node) *c14Node {
	return &c14Node{kind: "struct", fields: []c14Field{
		{"M", 1, mid}, {"Ms", 2, &c14Node{kind: "list", elem: mid}}, {"SMM", 3, &c14Node{kind: "strmap", elem: mid}},
		{"IMM", 4, &c14Node{kind: "intmap", elem: mid}}, {"S", 5, c14Scalar}, {"Lf", 6, c14Leaf}, {"M2", 100, mid}, {"Last", 32767, c14Scalar}}}
}

func c14RootOf(u int) *c14Node {
	if u == 1 {
		return c14Root2
	}
	return c14Root
}

// c14DescriptorOf registers the IDL of universe u (once per process) and returns the root descriptor.
func c14DescriptorOf(u int) *thrift_reflection.TypeDescriptor {
	u &= 1
	if c14Descs[u] != nil {
		return c14Descs[u]
	}
	td := c14IDLTypedef1
	if u == 1 {
		td = c14IDLTypedef2
	}
	ast, err := parser.ParseString("c14.thrift", td+c14IDL)
	if err != nil {
		panic(err)
	}
	_, fd := thrift_reflection.RegisterAST(ast)
	st := fd.GetStructDescriptor("Root")
	c14Descs[u] = &thrift_reflection.TypeDescriptor{
		Filepath: st.Filepath,
		Name:     st.Name,
		Extra:    map[string]string{thrift_reflection.GLOBAL_UUID_EXTRA_KEY: st.Extra[thrift_reflection.GLOBAL_UUID_EXTRA_KEY]},
	}
	return c14Descs[u]
}

type C14Mask struct {
	U     int      `json:"u,omitempty"` // descriptor universe (0 or 1)
	Paths []string `json:"paths"`
	Black bool     `json:"black,omitempty"`
}

type C14Op struct {
	Kind string `json:"kind"` // marshal unmarshal marshal_json unmarshal_json reuse_buf
	Mask int    `json:"mask"`
	Buf  int    `json:"buf,omitempty"` // shared caller buffer (unmarshal through a reused buffer)
}

type C14Caller struct {
	Ops []C14Op `json:"ops"`
}

type C14Corrupt struct {
	Mask int    `json:"mask"`
	Kind string `json:"kind"` // truncate flip delete insert path
	At   int    `json:"at"`
	Seed uint64 `json:"seed"`
}

type C14Work struct {
	Masks   []C14Mask    `json:"masks"`
	Callers []C14Caller  `json:"callers"`
	Corrupt []C14Corrupt `json:"corrupt"`
	Nonce   string       `json:"nonce"`
}

var c14NumRe = regexp.MustCompile(`"path":-?[0-9]+`)

type c14Driver struct{}

func init() { drivers["c14"] = c14Driver{} }

func c14GenPath(r *simrt.Rand, nonce string, u int) string {
	var sb strings.Builder
	sb.WriteString("$")
	n := c14RootOf(u)
	depth := 0
	for {
		depth++
		switch n.kind {
		case "scalar":
			return sb.String()
		case "struct":
			if depth > 1 && r.Chance(1, 5) {
				return sb.String()
			}
			f := n.fields[r.Intn(len(n.fields))]
			sb.WriteString("." + f.name)
			n = f.n
		case "list":
			if r.Chance(1, 5) {
				return sb.String()
			}
			switch r.Intn(4) {
			case 0:
				sb.WriteString("[*]")
			case 1:
				fmt.Fprintf(&sb, "[%d,%d]", r.Intn(3), 3+r.Intn(3))
			default:
				fmt.Fprintf(&sb, "[%d]", r.Intn(6))
			}
			n = n.elem
		case "strmap":
			if r.Chance(1, 5) {
				return sb.String()
			}
			switch r.Intn(4) {
			case 0:
				sb.WriteString("{*}")
			case 1:
				fmt.Fprintf(&sb, "{\"a\",\"%s\"}", nonce)
			default:
				if r.Chance(1, 6) {
					// keys as the path grammar writes them (Go string syntax): an escaped backslash at the
					// end, an escaped quote, a blank, a non-ASCII letter, a control character
					fmt.Fprintf(&sb, "{\"%s\"}", []string{`a\\`, `q\"x`, "x y", "é", `t\x01`}[r.Intn(5)])
				} else {
					fmt.Fprintf(&sb, "{\"%s\"}", []string{"a", "b", "k", nonce}[r.Intn(4)])
				}
			}
			n = n.elem
		case "intmap":
			if r.Chance(1, 5) {
				return sb.String()
			}
			switch r.Intn(4) {
			case 0:
				sb.WriteString("{*}")
			case 1:
				fmt.Fprintf(&sb, "{%d,%d}", r.Intn(3), 7+r.Intn(3))
			default:
				if r.Chance(1, 8) {
					// keys that need more than 53 bits (the descriptor has an i64-keyed map)
					sb.WriteString([]string{"{9007199254740993}", "{1152921504606846981}", "{4611686018427387905}"}[r.Intn(3)])
				} else {
					fmt.Fprintf(&sb, "{%d}", r.Intn(10))
				}
			}
			n = n.elem
		}
	}
}

// ---- a small independent path-set model for star-free masks ----
//
// A star-free path is "$" followed by segments .Name, [i,j,...], {"a","b",...} or {1,2,...}; a
// group stands for one path per member.  A concrete path q is in a white-list mask built from the
// set S of concrete paths iff some p in S is a prefix of q (a selected value covers everything
// beneath it) or q is a prefix of some p (q leads to a selected value).  In a black-list mask q is
// excluded iff some p in S is a prefix of q.

func c14Expand(path string) ([][]string, bool) {
	if !strings.HasPrefix(path, "$") || strings.Contains(path, "*") {
		return nil, false
	}
	out := [][]string{{}}
	rest := path[1:]
	for len(rest) > 0 {
		var members []string
		switch rest[0] {
		case '.':
			j := 1
			for j < len(rest) && rest[j] != '.' && rest[j] != '[' && rest[j] != '{' {
				j++
			}
			if j == 1 {
				return nil, false
			}
			members = []string{rest[:j]}
			rest = rest[j:]
		case '[', '{':
			closer := byte(']')
			if rest[0] == '{' {
				closer = '}'
			}
			j := strings.IndexByte(rest, closer)
			if j < 0 {
				return nil, false
			}
			for _, m := range strings.Split(rest[1:j], ",") {
				if m == "" || strings.ContainsAny(m, "[]{}") {
					return nil, false
				}
				members = append(members, string(rest[0])+m+string(closer))
			}
			rest = rest[j+1:]
		default:
			return nil, false
		}
		var next [][]string
		for _, pre := range out {
			for _, m := range members {
				next = append(next, append(append([]string{}, pre...), m))
			}
		}
		out = next
		if len(out) > 64 {
			return nil, false
		}
	}
	return out, true
}

func c14IsPrefix(a, b []string) bool {
	if len(a) > len(b) {
		return false
	}
	for i := range a {
		if a[i] != b[i] {
			return false
		}
	}
	return true
}

// c14Probes: prefixes of the given paths, the paths themselves, one-step extensions and siblings.
func c14Probes(set [][]string, root *c14Node) [][]string {
	seen := map[string]bool{}
	var out [][]string
	add := func(q []string) {
		k := strings.Join(q, "")
		if !seen[k] && len(out) < 200 {
			seen[k] = true
			out = append(out, append([]string{}, q...))
		}
	}
	for _, p := range set {
		// walk the schema along p
		n := root
		for i := 0; i <= len(p); i++ {
			add(p[:i])
			// siblings / extensions at this position
			switch n.kind {
			case "struct":
				for _, f := range n.fields {
					add(append(append([]string{}, p[:i]...), "."+f.name))
				}
			case "list":
				for _, k := range []string{"[0]", "[1]", "[2]", "[3]", "[4]", "[5]", "[9]"} {
					add(append(append([]string{}, p[:i]...), k))
				}
			case "strmap":
				for _, k := range []string{"{\"a\"}", "{\"b\"}", "{\"k\"}", "{\"zz\"}"} {
					add(append(append([]string{}, p[:i]...), k))
				}
			case "intmap":
				for _, k := range []string{"{0}", "{1}", "{2}", "{7}", "{8}", "{9}"} {
					add(append(append([]string{}, p[:i]...), k))
				}
			}
			if i == len(p) {
				break
			}
			// descend
			seg := p[i]
			switch {
			case n.kind == "struct" && strings.HasPrefix(seg, "."):
				var nx *c14Node
				for _, f := range n.fields {
					if "."+f.name == seg {
						nx = f.n
					}
				}
				if nx == nil {
					i = len(p)
					continue
				}
				n = nx
			case (n.kind == "list" && strings.HasPrefix(seg, "[")) || ((n.kind == "strmap" || n.kind == "intmap") && strings.HasPrefix(seg, "{")):
				n = n.elem
			default:
				i = len(p)
			}
		}
	}
	return out
}

func (c14Driver) Gen(seed uint64, tier string) *simrt.Spec {
	r := simrt.NewRand(seed)
	sp := &simrt.Spec{Kind: "c14", Seed: seed, MapMode: []string{"random", "random", "reversed", "sorted"}[r.Intn(4)],
		Strategy: []string{"random", "pct", "rtb"}[r.Intn(3)], PCTDepth: 1 + r.Intn(3)}
	w := C14Work{Nonce: fmt.Sprintf("n%x", seed)}
	nm := 1 + r.Intn(4)
	for i := 0; i < nm; i++ {
		m := C14Mask{Black: r.Chance(1, 3), U: r.Intn(2)}
		np := 1 + r.Intn(6)
		for k := 0; k < np; k++ {
			m.Paths = append(m.Paths, c14GenPath(r, w.Nonce, m.U))
		}
		// every mask carries the nonce so that documents never collide with those of other worlds (process-wide caches)
		m.Paths = append(m.Paths, fmt.Sprintf("$.SMM{\"%s%d\"}.X.A", w.Nonce, i))
		if r.Chance(1, 6) {
			m.Paths = append(m.Paths, m.Paths[r.Intn(len(m.Paths))]) // duplicate path
		}
		w.Masks = append(w.Masks, m)
	}
	if r.Chance(1, 40) {
		// the empty list of paths is a list of paths too
		w.Masks = append(w.Masks, C14Mask{Black: r.Chance(1, 3), U: r.Intn(2)})
	}
	// twins: same paths except for one digit, so that the two documents have the same length but
	// answer differently (a caller reusing its buffer overwrites one with the other in place)
	if r.Chance(1, 2) {
		src := w.Masks[r.Intn(len(w.Masks))]
		tw := C14Mask{Black: src.Black, U: src.U}
		changed := false
		for _, p := range src.Paths {
			b := []byte(p)
			for k := range b {
				if !changed && b[k] >= '0' && b[k] <= '8' && k > 0 && (b[k-1] == '[' || b[k-1] == '{') {
					b[k]++
					changed = true
				}
			}
			tw.Paths = append(tw.Paths, string(b))
		}
		if !changed {
			tw.Paths = append(tw.Paths, "$.Ms[7]")
			src.Paths = append(src.Paths, "$.Ms[8]")
		}
		w.Masks = append(w.Masks, tw)
		nm = len(w.Masks)
	}
	nc := 1 + r.Intn(6)
	for c := 0; c < nc; c++ {
		var cl C14Caller
		no := 1 + r.Intn(6)
		for k := 0; k < no; k++ {
			op := C14Op{Kind: []string{"marshal", "unmarshal", "marshal_json", "unmarshal_json", "reuse_buf", "reuse_buf", "fill_buf", "unmarshal_buf", "unmarshal_buf", "build", "build", "unmarshal_ws"}[r.Intn(12)], Mask: r.Intn(nm), Buf: r.Intn(2)}
			cl.Ops = append(cl.Ops, op)
		}
		w.Callers = append(w.Callers, cl)
	}
	nx := r.Intn(5)
	for k := 0; k < nx; k++ {
		w.Corrupt = append(w.Corrupt, C14Corrupt{Mask: r.Intn(nm), Kind: []string{"truncate", "flip", "delete", "insert", "path", "path", "number"}[r.Intn(7)], At: r.Intn(4000), Seed: r.Uint64()})
	}
	sp.Driver, _ = json.Marshal(w)
	return sp
}

// c14Answers renders what a mask answers on a probe set derived from the schema.
func c14Answers(fm *fieldmask.FieldMask, n *c14Node, depth int, sb *strings.Builder) {
	fmt.Fprintf(sb, "(E%v,A%v,B%v,T%v", fm.Exist(), fm.All(), fm.IsBlack(), fm.Type())
	if depth > 5 || fm == nil {
		sb.WriteString(")")
		return
	}
	// only the queries the statement lists are compared: per field id, list index, int key, string key, 'all'
	// (ForEachChild is not among them: it is defined for container masks only and exposes storage details)
	// the kind of query follows the type of the mask (a mask obtained from a damaged
	// document need not have the shape of the schema); the schema only supplies the ids to ask for
	generic := &c14Node{kind: "any"}
	child := func(kind string, pick func() *c14Node) *c14Node {
		if n.kind == kind || (kind == "list" && n.kind == "intmap") || (kind == "intmap" && n.kind == "list") {
			return pick()
		}
		return generic
	}
	switch fm.Type() {
	case fieldmask.FtStruct:
		fields := n.fields
		if n.kind != "struct" {
			fields = []c14Field{{"", 1, generic}, {"", 2, generic}, {"", 3, generic}, {"", 64, generic}, {"", 100, generic}}
		}
		for _, f := range fields {
			sub, ok := fm.Field(f.id)
			fmt.Fprintf(sb, ",f%d=%v", f.id, ok)
			if ok && sub != nil {
				c14Answers(sub, f.n, depth+1, sb)
			}
		}
		for _, id := range []int16{0, -1, 63, 65, 999} {
			_, ok := fm.Field(id)
			fmt.Fprintf(sb, ",x%d=%v", id, ok)
		}
	case fieldmask.FtList, fieldmask.FtIntMap:
		for _, i := range []int{0, 1, 2, 4, 5, 8, 100, -1} {
			sub, ok := fm.Int(i)
			fmt.Fprintf(sb, ",i%d=%v", i, ok)
			if ok && sub != nil {
				c14Answers(sub, child("list", func() *c14Node { return n.elem }), depth+1, sb)
			}
		}
	case fieldmask.FtStrMap:
		for _, k := range []string{"a", "b", "k", "zz", ""} {
			sub, ok := fm.Str(k)
			fmt.Fprintf(sb, ",s%q=%v", k, ok)
			if ok && sub != nil {
				c14Answers(sub, child("strmap", func() *c14Node { return n.elem }), depth+1, sb)
			}
		}
	}
	sb.WriteString(")")
}

func c14Ans(fm *fieldmask.FieldMask) string {
	var sb strings.Builder
	c14Answers(fm, c14Root, 0, &sb) // the probe ids of universe 0 serve for both (queries follow the mask's own type)
	return sb.String()
}

func (c14Driver) Run(spec *simrt.Spec, agg *Agg, keep bool) *Outcome {
	var work C14Work
	_ = json.Unmarshal(spec.Driver, &work)
	o := &Outcome{}
	// both universes are registered before any mask is built
	c14DescriptorOf(0)
	c14DescriptorOf(1)
	specK := *spec
	specK.KeepLog = true
	w := simrt.NewWorld(&specK)
	var class, sig, msg string
	var lowClass, lowMsg string
	fail := func(c, s, f string, a ...interface{}) {
		if class == "" {
			class, sig, msg = c, s, fmt.Sprintf(f, a...)
		}
	}
	guard := func(what string, f func()) {
		defer func() {
			if r := recover(); r != nil {
				if _, isStr := r.(string); isStr || true {
					// an abort of the world must keep unwinding
					if fmt.Sprintf("%T", r) == "simrt.abortPanic" {
						panic(r)
					}
				}
				st := string(debug.Stack())
				if i := strings.Index(st, "panic("); i >= 0 {
					st = st[i:]
				}
				fail("panic", "panic:"+what, "%s panicked: %v\n%s", what, r, firstLines(st, 14))
			}
		}()
		f()
	}
	nBuilt, nErr, nCorruptErr, nCorruptOK, nProbes, nConcBad := 0, 0, 0, 0, 0, 0
	nRegroup := 0
	res := w.Run(func() {
		type ref struct {
			fm   *fieldmask.FieldMask
			json []byte
			ans  string
		}
		refs := make([]*ref, len(work.Masks))
		for i, m := range work.Masks {
			i, m := i, m
			guard("NewFieldMask", func() {
				desc := c14DescriptorOf(m.U)
				star := false
				for _, pth := range m.Paths {
					if strings.Contains(pth, "*") {
						star = true // '*' resets specific keys at its position: outside what the statement defines
					}
				}
				fm, err := fieldmask.Options{BlackListMode: m.Black}.NewFieldMask(desc, m.Paths...)
				// (vii) grouping: the members of a bracket group written in another order, or each member
				// written as a path of its own in the same place, describe the same list of paths: the
				// list is accepted or refused alike, and an accepted one answers alike
				if !star && len(m.Paths) > 0 {
					for _, mode := range []string{"reverse-members", "split-groups"} {
						alt, changed := c14Regroup(m.Paths, mode)
						if !changed {
							continue
						}
						nRegroup++
						fa, ea := fieldmask.Options{BlackListMode: m.Black}.NewFieldMask(desc, alt...)
						if (ea == nil) != (err == nil) {
							fail("grouping-changes-outcome", "grouping-changes-outcome:"+mode, "paths %q: NewFieldMask says %v; the same paths written as %q: %v", m.Paths, err, alt, ea)
						} else if ea == nil && c14Ans(fa) != c14Ans(fm) {
							fail("grouping-changes-answers", "grouping-changes-answers:"+mode, "paths %q and the same paths written as %q give masks that answer differently: %s", m.Paths, alt, firstDiff(c14Ans(fm), c14Ans(fa)))
						}
					}
				}
				if err != nil {
					nErr++
					if !star && !c14HasNegative(m.Paths) && !c14PrefixRelated(m.Paths) {
						// the paths were generated from the schema of this universe: without '*' and without one
						// path ending where another continues (a complete path acts like '*') nothing can conflict
						fail("valid-paths-rejected", "valid-paths-rejected", "NewFieldMask (universe %d) rejects paths that are valid for its descriptor: %q: %v", m.U, m.Paths, err)
					}
					return
				}
				nBuilt++
				j, err := fm.MarshalJSON()
				if err != nil {
					fail("marshal-error", "marshal-error", "MarshalJSON of a mask built by the library fails: %v", err)
					return
				}
				refs[i] = &ref{fm: fm, json: append([]byte(nil), j...), ans: c14Ans(fm)}
				checkMembership := func(x *fieldmask.FieldMask, who string) {
					// (v) every path the mask was built from is a member of the mask (white list) /
					// is excluded by it (black list): the weakest consequence of "answers as the paths prescribe"
					for _, pth := range m.Paths {
						if star {
							break
						}
						in := x.PathInMask(desc, pth)
						if !m.Black && !in {
							fail("own-path-not-in-mask", "own-path-not-in-mask", "%s: white-list mask built from %q does not contain its own path %q", who, m.Paths, pth)
						}
					}
					// (vi) star-free masks: membership of probe paths against the independent path-set model
					if !star {
						var set [][]string
						okAll := true
						for _, pth := range m.Paths {
							ex, ok := c14Expand(pth)
							if !ok {
								okAll = false
								break
							}
							set = append(set, ex...)
						}
						if okAll {
							for _, q := range c14Probes(set, c14RootOf(m.U)) {
								qs := "$" + strings.Join(q, "")
								covered, leads := false, false
								for _, pp := range set {
									if c14IsPrefix(pp, q) {
										covered = true
									}
									if c14IsPrefix(q, pp) {
										leads = true
									}
								}
								got := x.PathInMask(desc, qs)
								want := covered || leads
								if m.Black {
									want = !covered
								}
								if got != want {
									fail("path-membership", "path-membership", "%s (black=%v) built from %q: PathInMask(%q) = %v, the set of paths prescribes %v", who, m.Black, m.Paths, qs, got, want)
									break
								}
								nProbes++
							}
						}
					}
				}
				checkMembership(fm, "the mask")
				// (i) stable text: again on the same mask, and on a second mask from the same paths
				j2, _ := fm.MarshalJSON()
				if !bytes.Equal(j, j2) {
					fail("unstable-json", "unstable-json:same-mask", "two MarshalJSON calls on one mask differ: %s vs %s", clip(string(j)), clip(string(j2)))
				}
				fm2, err := fieldmask.Options{BlackListMode: m.Black}.NewFieldMask(desc, m.Paths...)
				if err == nil {
					j3, _ := fm2.MarshalJSON()
					if !bytes.Equal(j, j3) {
						fail("unstable-json", "unstable-json:same-paths", "two masks built from the same paths marshal differently: %s vs %s", clip(string(j)), clip(string(j3)))
					}
				}
				// (ii) round trip
				back := new(fieldmask.FieldMask)
				if err := back.UnmarshalJSON(j); err != nil {
					cls := "roundtrip-error"
					if len(m.Paths) == 0 {
						cls = "roundtrip-error:no-paths" // a class of its own, so that minimising another failure cannot end here
					}
					if len(m.Paths) == 0 {
						// a listed finding: reported for this world only if nothing else fails in it
						if lowClass == "" {
							lowClass, lowMsg = cls, fmt.Sprintf("UnmarshalJSON of the library's own output fails: %v (%s); paths %q black=%v", err, clip(string(j)), m.Paths, m.Black)
						}
						refs[i] = nil // its text cannot be decoded: the callers and the damaged-input phase leave this mask alone
						return
					}
					fail(cls, cls, "UnmarshalJSON of the library's own output fails: %v (%s); paths %q black=%v", err, clip(string(j)), m.Paths, m.Black)
					return
				}
				if a := c14Ans(back); a != refs[i].ans {
					fail("roundtrip-differs", "roundtrip-differs", "after JSON round trip the mask answers differently; paths %q black=%v: %s", m.Paths, m.Black, firstDiff(refs[i].ans, a))
				}
				checkMembership(back, "the mask after a JSON round trip")
				j4, _ := back.MarshalJSON()
				if !bytes.Equal(j, j4) {
					fail("unstable-json", "unstable-json:roundtrip", "the round-tripped mask marshals differently: %s vs %s", clip(string(j)), clip(string(j4)))
				}
			})
		}
		// (iii) histories by concurrent callers over the caches and the pool
		type held struct {
			b    []byte
			snap string
			who  string
		}
		var helds []*held
		var wg sync.WaitGroup
		for ci, cl := range work.Callers {
			ci, cl := ci, cl
			simrt.WGAdd(&wg, 1)
			simrt.Go("c14-caller", func() {
				defer simrt.WGDone(&wg)
				bufs := [2][]byte{}      // buffers this caller owns and reuses
				bufDoc := [2]int{-1, -1} // which mask's document each buffer holds
				guard("caller", func() {
					for _, op := range cl.Ops {
						if op.Mask < 0 || op.Mask >= len(refs) || refs[op.Mask] == nil {
							continue
						}
						rf := refs[op.Mask]
						who := fmt.Sprintf("caller %d %s(mask %d)", ci, op.Kind, op.Mask)
						switch op.Kind {
						case "marshal":
							j, err := fieldmask.Marshal(rf.fm)
							if err != nil || !bytes.Equal(j, rf.json) {
								fail("cache-wrong-json", "cache-wrong-json", "%s returned %s, a cache-free call returns %s (err=%v)", who, clip(string(j)), clip(string(rf.json)), err)
							}
							helds = append(helds, &held{j, string(j), who})
						case "marshal_json":
							j, err := rf.fm.MarshalJSON()
							if err != nil || !bytes.Equal(j, rf.json) {
								fail("wrong-json", "wrong-json", "%s returned %s, want %s (err=%v)", who, clip(string(j)), clip(string(rf.json)), err)
							}
							helds = append(helds, &held{j, string(j), who})
						case "unmarshal":
							data := append([]byte(nil), rf.json...)
							fm, err := fieldmask.Unmarshal(data)
							if err != nil {
								fail("cache-unmarshal-error", "cache-unmarshal-error", "%s: %v", who, err)
							} else if a := c14Ans(fm); a != rf.ans {
								fail("cache-wrong-mask", "cache-wrong-mask", "%s returned a mask that answers differently from the mask of that document: %s", who, firstDiff(rf.ans, a))
							}
							// the caller owns data and may scribble over it afterwards
							for k := range data {
								data[k] = 'x'
							}
						case "unmarshal_json":
							fm := new(fieldmask.FieldMask)
							if err := fm.UnmarshalJSON(rf.json); err != nil {
								fail("unmarshal-error", "unmarshal-error", "%s: %v", who, err)
							} else if a := c14Ans(fm); a != rf.ans {
								fail("wrong-mask", "wrong-mask", "%s answers differently: %s", who, firstDiff(rf.ans, a))
							}
						case "fill_buf":
							// the caller puts another document into its buffer (in place) without decoding it yet
							bufs[op.Buf&1] = append(bufs[op.Buf&1][:0], rf.json...)
							bufDoc[op.Buf&1] = op.Mask
						case "unmarshal_buf":
							k := bufDoc[op.Buf&1]
							if k < 0 || refs[k] == nil {
								continue
							}
							want := refs[k]
							fm, err := fieldmask.Unmarshal(bufs[op.Buf&1])
							if err != nil {
								fail("cache-unmarshal-error", "cache-unmarshal-error", "%s: %v", who, err)
							} else if a := c14Ans(fm); a != want.ans {
								fail("cache-wrong-mask", "cache-wrong-mask:reused-buffer", "%s decoded the document of mask %d from a buffer the caller had reused, and got a mask that answers differently from the mask of that document: %s", who, k, firstDiff(want.ans, a))
							}
						case "unmarshal_ws":
							// the same document written with insignificant white space: the mask answers alike, and its
							// text (through the cache as well) is the one stable text, not an echo of what was read
							data := append(bytes.ReplaceAll(rf.json, []byte(","), []byte(", ")), '\n')
							if bytes.Contains(rf.json, []byte(`\"`)) || bytes.Contains(rf.json, []byte(`,"`+"`")) {
								continue
							}
							inString := false
							for _, c := range rf.json {
								if c == '"' {
									inString = !inString
								} else if c == ',' && inString {
									data = nil // a comma inside a key: leave this document alone
								}
							}
							if data == nil {
								continue
							}
							fm, err := fieldmask.Unmarshal(data)
							if err != nil {
								fail("cache-unmarshal-error", "cache-unmarshal-error:white-space", "%s: %v", who, err)
							} else if a := c14Ans(fm); a != rf.ans {
								fail("cache-wrong-mask", "cache-wrong-mask:white-space", "%s returned a mask that answers differently from the mask of that document: %s", who, firstDiff(rf.ans, a))
							} else if j, err := fieldmask.Marshal(fm); err != nil || !bytes.Equal(j, rf.json) {
								fail("unstable-json", "unstable-json:after-unmarshal", "%s: Marshal of the mask read from a white-space variant of %s returns %s (err=%v)", who, clip(string(rf.json)), clip(string(j)), err)
							}
						case "build":
							// callers build masks at the same time, each from the descriptor of its own universe
							m := work.Masks[op.Mask]
							fm, err := fieldmask.Options{BlackListMode: m.Black}.NewFieldMask(c14DescriptorOf(m.U), m.Paths...)
							if err != nil {
								fail("concurrent-build-error", "concurrent-build-error", "%s: NewFieldMask (universe %d) fails for paths %q that built the same mask before the callers started: %v", who, m.U, m.Paths, err)
							} else if j, err := fm.MarshalJSON(); err != nil || !bytes.Equal(j, rf.json) {
								fail("concurrent-build-differs", "concurrent-build-differs", "%s: a mask built from %q (universe %d) while other callers run marshals to %s, the mask built from the same paths before marshals to %s (err=%v)", who, m.Paths, m.U, clip(string(j)), clip(string(rf.json)), err)
							}
						case "reuse_buf":
							// a caller-owned buffer reused for successive documents
							b := bufs[op.Buf&1]
							b = append(b[:0], rf.json...)
							bufs[op.Buf&1] = b
							bufDoc[op.Buf&1] = op.Mask
							fm, err := fieldmask.Unmarshal(b)
							if err != nil {
								fail("cache-unmarshal-error", "cache-unmarshal-error", "%s: %v", who, err)
							} else if a := c14Ans(fm); a != rf.ans {
								fail("cache-wrong-mask", "cache-wrong-mask:reused-buffer", "%s (through a reused caller buffer) returned a mask that answers differently from the mask of that document: %s", who, firstDiff(rf.ans, a))
							}
						}
					}
				})
			})
		}
		simrt.WGWait(&wg)
		for _, h := range helds {
			if string(h.b) != h.snap {
				fail("returned-bytes-changed", "returned-bytes-changed", "the bytes returned to %s changed afterwards: %s -> %s", h.who, clip(h.snap), clip(string(h.b)))
			}
		}
		// damaged: the document of a mask after the storage / transport damage cx (nil: not applicable)
		damaged := func(cx C14Corrupt, rf *ref) []byte {
			r := simrt.NewRand(cx.Seed)
			doc := append([]byte(nil), rf.json...)
			if len(doc) == 0 {
				return nil
			}
			switch cx.Kind {
			case "truncate":
				doc = doc[:cx.At%len(doc)]
			case "flip":
				for k := 0; k < 1+r.Intn(3); k++ {
					doc[r.Intn(len(doc))] ^= 1 << uint(r.Intn(8))
				}
			case "delete":
				at := cx.At % len(doc)
				n := 1 + r.Intn(8)
				if at+n > len(doc) {
					n = len(doc) - at
				}
				doc = append(doc[:at], doc[at+n:]...)
			case "number":
				// a numeric path / key replaced by another number (negative, large, fractional)
				idx := c14NumRe.FindAllIndex(doc, -1)
				if len(idx) == 0 {
					return nil
				}
				at := idx[r.Intn(len(idx))]
				repl := []string{"-1", "-64", "64", "65536", "2147483648", "99999999999", "1.5", "-0", "1e3"}[r.Intn(9)]
				doc = append(append(append([]byte(nil), doc[:at[0]]...), []byte("\"path\":"+repl)...), doc[at[1]:]...)
			case "insert":
				at := cx.At % (len(doc) + 1)
				junk := []string{"{", "}", "[", "]", ",", ":", "\"", "null", "\"type\":\"Nope\"", "\"path\":-5", "\"children\":[{}]", "1e99", "\"is_black\":1"}[r.Intn(13)]
				doc = append(append(append([]byte(nil), doc[:at]...), junk...), doc[at:]...)
			}
			return doc
		}
		// (iv) corrupted documents and path strings
		for _, cx := range work.Corrupt {
			if cx.Mask < 0 || cx.Mask >= len(refs) || refs[cx.Mask] == nil {
				continue
			}
			rf := refs[cx.Mask]
			r := simrt.NewRand(cx.Seed)
			if cx.Kind == "path" {
				ps := append([]string(nil), work.Masks[cx.Mask].Paths...)
				if len(ps) == 0 {
					continue
				}
				k := r.Intn(len(ps))
				p := []byte(ps[k])
				if len(p) > 0 {
					switch r.Intn(4) {
					case 0:
						p = p[:r.Intn(len(p))]
					case 1:
						p[r.Intn(len(p))] ^= 1 << uint(r.Intn(7))
					case 2:
						at := r.Intn(len(p) + 1)
						junk := []string{"[", "]", "{", "}", "\"", "*", ",", ".", "$", "\\", "99999999999999999999", "-"}[r.Intn(12)]
						p = append(append(append([]byte(nil), p[:at]...), junk...), p[at:]...)
					default:
						at := r.Intn(len(p))
						p = append(append([]byte(nil), p[:at]...), p[at+1:]...)
					}
				}
				ps[k] = string(p)
				guard("NewFieldMask(damaged path "+ps[k]+")", func() {
					fm, err := fieldmask.Options{BlackListMode: work.Masks[cx.Mask].Black}.NewFieldMask(c14DescriptorOf(work.Masks[cx.Mask].U), ps...)
					if err != nil {
						nCorruptErr++
						return
					}
					nCorruptOK++
					_ = c14Ans(fm)
					if _, err := fm.MarshalJSON(); err != nil {
						fail("marshal-error", "marshal-error:damaged-path", "a mask accepted from a damaged path cannot be marshalled: %v", err)
					}
				})
				continue
			}
			doc := damaged(cx, rf)
			if doc == nil {
				continue
			}
			guard("UnmarshalJSON(damaged document "+clip(string(doc))+")", func() {
				fm := new(fieldmask.FieldMask)
				if err := fm.UnmarshalJSON(doc); err != nil {
					nCorruptErr++
					return
				}
				nCorruptOK++
				_ = c14Ans(fm)
			})
			guard("Unmarshal(damaged document "+clip(string(doc))+")", func() {
				// through the cache, twice: the outcome is a function of the document, not of the history
				d2 := append(append([]byte(nil), doc...), ' ')
				fm1, err1 := fieldmask.Unmarshal(d2)
				a1 := ""
				if err1 == nil {
					a1 = c14Ans(fm1)
				}
				fm2, err2 := fieldmask.Unmarshal(append([]byte(nil), d2...))
				if (err1 == nil) != (err2 == nil) {
					fail("cache-history", "cache-history:error-differs", "Unmarshal of the same damaged document answered %v the first time and %v the second time: %s", err1, err2, clip(string(d2)))
				} else if err2 == nil {
					if a2 := c14Ans(fm2); a2 != a1 {
						fail("cache-history", "cache-history:mask-differs", "Unmarshal of the same document returned masks that answer differently: %s", firstDiff(a1, a2))
					}
				}
			})
		}
		// (iv-b) the same damaged document handed to Unmarshal by several callers at the same time: every one of
		// them gets the outcome a cache-free decode gives (rejected for all, or masks that answer alike)
		for ci, cx := range work.Corrupt {
			if cx.Kind == "path" || cx.Mask < 0 || cx.Mask >= len(refs) || refs[cx.Mask] == nil {
				continue
			}
			doc := damaged(cx, refs[cx.Mask])
			if doc == nil {
				continue
			}
			doc = append(doc, '\t', '\n') // a text no earlier phase has shown to the caches
			refErr, refAns, refPanic := false, "", false
			func() {
				defer func() {
					if recover() != nil {
						refPanic = true
					}
				}()
				fm := new(fieldmask.FieldMask)
				if err := fm.UnmarshalJSON(append([]byte(nil), doc...)); err != nil {
					refErr = true
				} else {
					refAns = c14Ans(fm)
				}
			}()
			if refPanic {
				continue // reported by phase (iv)
			}
			var wg2 sync.WaitGroup
			n := 2 + int(cx.Seed%3)
			for k := 0; k < n; k++ {
				k := k
				simrt.WGAdd(&wg2, 1)
				simrt.Go("c14-bad-doc-caller", func() {
					defer simrt.WGDone(&wg2)
					guard("concurrent Unmarshal(damaged document)", func() {
						who := fmt.Sprintf("caller %d of %d decoding damaged document %d at the same time", k, n, ci)
						fm, err := fieldmask.Unmarshal(append([]byte(nil), doc...))
						switch {
						case refErr && err == nil:
							fail("concurrent-unmarshal-differs", "concurrent-unmarshal-differs:error-lost", "%s: a cache-free decode rejects %s, this caller got no error (mask nil: %v)", who, clip(string(doc)), fm == nil)
						case !refErr && err != nil:
							fail("concurrent-unmarshal-differs", "concurrent-unmarshal-differs:spurious-error", "%s: a cache-free decode accepts %s, this caller got %v", who, clip(string(doc)), err)
						case !refErr && fm == nil:
							fail("concurrent-unmarshal-differs", "concurrent-unmarshal-differs:nil-mask", "%s: no error and no mask for %s", who, clip(string(doc)))
						case !refErr:
							if a := c14Ans(fm); a != refAns {
								fail("concurrent-unmarshal-differs", "concurrent-unmarshal-differs:mask", "%s: the mask answers differently from a cache-free decode of the same text: %s", who, firstDiff(refAns, a))
							}
						}
					})
				})
			}
			simrt.WGWait(&wg2)
			nConcBad++
		}
	})
	agg.merge(res)
	o.LogHash, o.SchedFP, o.Branching = res.LogHash, res.SchedFP, res.Branching
	if keep {
		o.Result = res
	}
	if res.ExitHow != "return" && class == "" {
		class, sig = "crash", "crash:"+res.ExitHow
		msg = fmt.Sprintf("%s %s %s", res.ExitHow, res.Verdict, firstLines(res.Panic, 12))
	}
	if class == "" && lowClass != "" {
		class, sig, msg = lowClass, lowClass, lowMsg
	}
	o.Class, o.Sig, o.Msg = class, sig, msg
	agg.Count("masks.built", nBuilt)
	agg.Count("probe.path-membership-queries", nProbes)
	agg.Count("probe.regrouped-path-lists", nRegroup)
	agg.Count("masks.rejected-paths", nErr)
	agg.Count("fault.corrupt.decoded-by-concurrent-callers", nConcBad)
	agg.Count("fault.corrupt.rejected", nCorruptErr)
	agg.Count("fault.corrupt.accepted", nCorruptOK)
	for _, cx := range work.Corrupt {
		agg.Count("fault.corrupt."+cx.Kind, 1)
	}
	nops := 0
	for _, c := range work.Callers {
		nops += len(c.Ops)
	}
	agg.State(fmt.Sprintf("masks=%d callers=%d ops=%d built=%d corrupt=%d", bucket(len(work.Masks)), bucket(len(work.Callers)), bucket(nops), bucket(nBuilt), bucket(len(work.Corrupt))))
	o.Nontrivial = nBuilt > 0 && (res.Branching >= 2 || len(work.Corrupt) > 0)
	o.CaseKey = res.SchedFP + "|" + string(spec.Driver)
	o.Detail, _ = json.Marshal(map[string]interface{}{"masks": len(work.Masks), "built": nBuilt, "callers": len(work.Callers), "ops": nops, "corrupt": len(work.Corrupt), "sched_decisions": res.Branching})
	return o
}

func firstDiff(a, b string) string {
	i := 0
	for i < len(a) && i < len(b) && a[i] == b[i] {
		i++
	}
	lo := i - 80
	if lo < 0 {
		lo = 0
	}
	cut := func(s string) string {
		hi := i + 60
		if hi > len(s) {
			hi = len(s)
		}
		if lo > len(s) {
			return ""
		}
		return s[lo:hi]
	}
	return fmt.Sprintf("at %d: …%s… vs …%s…", i, cut(a), cut(b))
}

func c14HasNegative(paths []string) bool {
	for _, p := range paths {
		if strings.Contains(p, "{-") || strings.Contains(p, "[-") || strings.Contains(p, ",-") {
			return true
		}
	}
	return false
}

// c14PrefixRelated: some given path is a proper prefix of another (a complete
// path settles everything beneath it, so the longer one may legitimately be refused).
func c14PrefixRelated(paths []string) bool {
	var set [][]string
	for _, p := range paths {
		ex, ok := c14Expand(p)
		if !ok {
			return true
		}
		set = append(set, ex...)
	}
	for i := range set {
		for j := range set {
			if i != j && len(set[i]) < len(set[j]) && c14IsPrefix(set[i], set[j]) {
				return true
			}
		}
	}
	return false
}

// c14Regroup rewrites the bracket groups of star-free paths: "reverse-members" writes the members of
// every group in reverse order, "split-groups" replaces a path by one path per combination of
// members, in the same place of the list.  Paths it cannot take apart are left alone.
func c14Regroup(paths []string, mode string) ([]string, bool) {
	var out []string
	changed := false
	for _, p := range paths {
		if !strings.HasPrefix(p, "$") || strings.Contains(p, "*") {
			out = append(out, p)
			continue
		}
		switch mode {
		case "split-groups":
			ex, ok := c14Expand(p)
			if !ok || len(ex) < 2 {
				out = append(out, p)
				continue
			}
			for _, segs := range ex {
				out = append(out, "$"+strings.Join(segs, ""))
			}
			changed = true
		default:
			var sb strings.Builder
			sb.WriteString("$")
			rest := p[1:]
			ok := true
			for len(rest) > 0 && ok {
				switch rest[0] {
				case '[', '{':
					closer := byte(']')
					if rest[0] == '{' {
						closer = '}'
					}
					j := strings.IndexByte(rest, closer)
					if j < 0 {
						ok = false
						break
					}
					ms := strings.Split(rest[1:j], ",")
					for _, m := range ms {
						if m == "" || strings.ContainsAny(m, "[]{}") {
							ok = false
						}
					}
					if len(ms) > 1 {
						for a, b := 0, len(ms)-1; a < b; a, b = a+1, b-1 {
							ms[a], ms[b] = ms[b], ms[a]
						}
						changed = true
					}
					sb.WriteString(string(rest[0]) + strings.Join(ms, ",") + string(closer))
					rest = rest[j+1:]
				default:
					j := 1
					for j < len(rest) && rest[j] != '[' && rest[j] != '{' {
						j++
					}
					sb.WriteString(rest[:j])
					rest = rest[j:]
				}
			}
			if !ok {
				out = append(out, p)
				continue
			}
			out = append(out, sb.String())
		}
	}
	return out, changed
}
