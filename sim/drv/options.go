package drv

import (
	"github.com/cloudwego/thriftgo/generator/fastgo"
	"github.com/cloudwego/thriftgo/generator/golang"
)

// backendOptions lists the options of the backends of the tree under test.
func backendOptions() map[string][][2]string {
	out := map[string][][2]string{}
	for _, o := range new(golang.GoBackend).Options() {
		out["go"] = append(out["go"], [2]string{o.Name, o.Desc})
	}
	for _, o := range new(fastgo.FastGoBackend).Options() {
		out["fastgo"] = append(out["fastgo"], [2]string{o.Name, o.Desc})
	}
	return out
}
