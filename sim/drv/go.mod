// This file only keeps the directory out of the /verif module; it is removed
// when the package is copied into the scratch copy of thriftgo.
module verifdrv.invalid
