package drv

import (
	"crypto/sha256"
	"encoding/binary"
	"encoding/hex"
	"encoding/json"
	"fmt"
	"strconv"
	"strings"
	"time"

	"github.com/cloudwego/thriftgo/internal/verifsim/simrt"
	"github.com/cloudwego/thriftgo/plugin"
)

// PlugFile is one item of a scripted plugin response.
type PlugFile struct {
	Name    string `json:"name,omitempty"`
	IP      string `json:"ip,omitempty"`
	Content string `json:"content"`
	Abs     bool   `json:"abs,omitempty"` // the name is already complete: do not prefix it with the output path
}

// PlugScript describes the behaviour of one simulated plugin process.
type PlugScript struct {
	ReadStdin   *int       `json:"read_stdin,omitempty"` // nil: read everything; n: read n bytes and stop reading
	Decode      bool       `json:"decode,omitempty"`     // decode the request with the tree's own UnmarshalRequest and note its canonical dump
	Files       []PlugFile `json:"files,omitempty"`
	Warnings    []string   `json:"warnings,omitempty"`
	Error       *string    `json:"error,omitempty"`
	NoResponse  bool       `json:"no_response,omitempty"` // write nothing to stdout
	Mangle      string     `json:"mangle,omitempty"`      // "" | truncate | flip | random | append | empty
	MangleAt    int        `json:"mangle_at,omitempty"`
	MangleSeed  uint64     `json:"mangle_seed,omitempty"`
	Chunks      int        `json:"chunks,omitempty"`
	Stderr      string     `json:"stderr,omitempty"`
	DelayBefore int64      `json:"delay_before_ns,omitempty"`
	DelayMid    int64      `json:"delay_mid_ns,omitempty"`
	DelayAfter  int64      `json:"delay_after_ns,omitempty"`
	Hang        string     `json:"hang,omitempty"`          // before | mid | after
	DieBySignal string     `json:"die_by_signal,omitempty"` // before | mid | after: somebody else kills the process at that moment (OOM killer, operator)
	DieOnce     bool       `json:"die_once,omitempty"`      // ... only the first time this executable is started
	Exit        int        `json:"exit,omitempty"`
	ExitAfter   *int       `json:"exit_after,omitempty"`    // exit (with Exit) after that many bytes of stdout
	OutPrefix   string     `json:"out_prefix,omitempty"`    // names of files are prefixed with the request's OutputPath if set to "$OUT"
	IgnoreInt   bool       `json:"ignore_sigint,omitempty"` // the plugin ignores SIGINT / SIGTERM (only SIGKILL ends it)
	FaultLang   string     `json:"fault_lang,omitempty"`    // misbehave only when the request is for this language; otherwise answer healthily
}

func sha(b []byte) string {
	h := sha256.Sum256(b)
	return hex.EncodeToString(h[:])
}

// classifyResponse is an independent reader of the binary encoding of
// Response{1: optional string Error, 2: optional list<Generated>, 3: optional list<string>}
// with Generated{1: required string Content, 2: optional string Name, 3: optional string InsertionPoint}.
// It returns "valid", "valid-trailing", "odd" (decodable but with fields of an
// unexpected type or id: behaviour left unasserted) or "invalid".
func classifyResponse(b []byte) string {
	odd := false
	var skip func(p int, t byte, depth int) int
	readStruct := func(p int, depth int, onField func(id int16, t byte, p int) int) int { return -1 }
	_ = readStruct
	skip = func(p int, t byte, depth int) int {
		if depth > 32 || p < 0 {
			return -1
		}
		need := func(n int) bool { return n >= 0 && p+n <= len(b) }
		switch t {
		case 2, 3: // bool, byte
			if !need(1) {
				return -1
			}
			return p + 1
		case 6:
			if !need(2) {
				return -1
			}
			return p + 2
		case 8:
			if !need(4) {
				return -1
			}
			return p + 4
		case 4, 10:
			if !need(8) {
				return -1
			}
			return p + 8
		case 11:
			if !need(4) {
				return -1
			}
			n := int(int32(binary.BigEndian.Uint32(b[p:])))
			p += 4
			if n < 0 || p+n > len(b) {
				return -1
			}
			return p + n
		case 12:
			for {
				if p >= len(b) {
					return -1
				}
				ft := b[p]
				p++
				if ft == 0 {
					return p
				}
				if p+2 > len(b) {
					return -1
				}
				p += 2
				p = skip(p, ft, depth+1)
				if p < 0 {
					return -1
				}
			}
		case 13:
			if !need(6) {
				return -1
			}
			kt, vt := b[p], b[p+1]
			n := int(int32(binary.BigEndian.Uint32(b[p+2:])))
			p += 6
			if n < 0 || n > len(b) {
				return -1
			}
			for i := 0; i < n; i++ {
				p = skip(p, kt, depth+1)
				p = skip(p, vt, depth+1)
				if p < 0 {
					return -1
				}
			}
			return p
		case 14, 15:
			if !need(5) {
				return -1
			}
			et := b[p]
			n := int(int32(binary.BigEndian.Uint32(b[p+1:])))
			p += 5
			if n < 0 || n > len(b) {
				return -1
			}
			for i := 0; i < n; i++ {
				p = skip(p, et, depth+1)
				if p < 0 {
					return -1
				}
			}
			return p
		}
		return -1
	}
	str := func(p int) int { return skip(p, 11, 0) }
	generated := func(p int) int {
		hasContent := false
		for {
			if p >= len(b) {
				return -1
			}
			ft := b[p]
			p++
			if ft == 0 {
				break
			}
			if p+2 > len(b) {
				return -1
			}
			id := int16(binary.BigEndian.Uint16(b[p:]))
			p += 2
			if id >= 1 && id <= 3 && ft == 11 {
				if id == 1 {
					hasContent = true
				}
				p = str(p)
			} else {
				odd = true
				p = skip(p, ft, 1)
			}
			if p < 0 {
				return -1
			}
		}
		if !hasContent {
			return -1 // required field missing
		}
		return p
	}
	p := 0
	for {
		if p >= len(b) {
			return "invalid"
		}
		ft := b[p]
		p++
		if ft == 0 {
			break
		}
		if p+2 > len(b) {
			return "invalid"
		}
		id := int16(binary.BigEndian.Uint16(b[p:]))
		p += 2
		switch {
		case id == 1 && ft == 11:
			p = str(p)
		case id == 2 && ft == 15:
			if p+5 > len(b) {
				return "invalid"
			}
			et := b[p]
			n := int(int32(binary.BigEndian.Uint32(b[p+1:])))
			p += 5
			if n < 0 || n > len(b) {
				return "invalid"
			}
			if et != 12 {
				// a reader that trusts the schema rather than the element-type byte still decodes this:
				// neither clearly valid nor clearly invalid
				odd = true
				q := p
				for i := 0; i < n && q >= 0; i++ {
					q = generated(q)
				}
				if q < 0 {
					q = p
					for i := 0; i < n && q >= 0; i++ {
						q = skip(q, et, 1)
					}
				}
				p = q
			} else {
				for i := 0; i < n && p >= 0; i++ {
					p = generated(p)
				}
			}
		case id == 3 && ft == 15:
			if p+5 > len(b) {
				return "invalid"
			}
			et := b[p]
			n := int(int32(binary.BigEndian.Uint32(b[p+1:])))
			p += 5
			if n < 0 || n > len(b) {
				return "invalid"
			}
			if et != 11 {
				odd = true
				q := p
				for i := 0; i < n && q >= 0; i++ {
					q = skip(q, 11, 1)
				}
				if q < 0 {
					q = p
					for i := 0; i < n && q >= 0; i++ {
						q = skip(q, et, 1)
					}
				}
				p = q
			} else {
				for i := 0; i < n && p >= 0; i++ {
					p = skip(p, et, 1)
				}
			}
		default:
			odd = true
			p = skip(p, ft, 1)
		}
		if p < 0 {
			return "invalid"
		}
	}
	if odd {
		return "odd"
	}
	if p < len(b) {
		return "valid-trailing"
	}
	return "valid"
}

func pluginProgram(p *simrt.Proc, raw json.RawMessage) int {
	var sc PlugScript
	if err := json.Unmarshal(raw, &sc); err != nil {
		p.Note("script.error", err.Error())
		return 97
	}
	if sc.IgnoreInt {
		p.IgnoreInterrupt()
	}
	if sc.DelayBefore > 0 {
		p.Sleep(time.Duration(sc.DelayBefore))
	}
	dies := func(when string) bool {
		return sc.DieBySignal == when && (!sc.DieOnce || p.Execution() == 1)
	}
	if dies("before") {
		p.Die("killed")
	}
	if sc.Hang == "before" {
		p.Hang()
	}
	n := -1
	if sc.ReadStdin != nil {
		n = *sc.ReadStdin
	}
	in := p.ReadStdin(n)
	p.Note("stdin.sha256", sha(in))
	p.Note("stdin.len", len(in))
	outPath := ""
	reqLang := ""
	if sc.Decode && n < 0 {
		func() {
			defer func() {
				if r := recover(); r != nil {
					p.Note("req.panic", fmt.Sprint(r))
				}
			}()
			var req *plugin.Request
			var err error
			if pluginPredatesTrailer(p.BuildVersion()) {
				// an executable linked against a thriftgo older than v0.4.2 knows nothing of the data
				// trailer and of compressed includes: it reads the struct and stops
				req = plugin.NewRequest()
				_, err = req.FastRead(in)
				p.Note("req.decoder", "pre-trailer")
			} else {
				req, err = plugin.UnmarshalRequest(in)
			}
			if err != nil {
				p.Note("req.err", err.Error())
				return
			}
			outPath = req.OutputPath
			reqLang = req.Language
			p.Note("req.dump", simrt.DumpTree(req))
			p.Note("req.version", req.Version)
			p.Note("req.language", req.Language)
			p.Note("req.output_path", req.OutputPath)
			p.Note("req.recursive", req.Recursive)
			p.Note("req.generator_parameters", req.GeneratorParameters)
			p.Note("req.plugin_parameters", req.PluginParameters)
		}()
	}
	if sc.FaultLang != "" && sc.Decode && reqLang != "" && reqLang != sc.FaultLang {
		// healthy for this language
		sc.Error, sc.Mangle, sc.Exit, sc.ExitAfter, sc.Hang, sc.NoResponse = nil, "", 0, nil, "", false
		sc.DelayMid, sc.DelayAfter = 0, 0
		p.Note("fault.skipped_for_language", reqLang)
	}
	if sc.DelayMid > 0 {
		p.Sleep(time.Duration(sc.DelayMid))
	}
	if dies("mid") {
		p.Die("killed")
	}
	if sc.Hang == "mid" {
		p.Hang()
	}
	if sc.Stderr != "" {
		p.Write(2, []byte(sc.Stderr))
	}
	var out []byte
	if !sc.NoResponse {
		res := plugin.NewResponse()
		res.Error = sc.Error
		res.Warnings = sc.Warnings
		for i := range sc.Files {
			f := &sc.Files[i]
			g := &plugin.Generated{Content: f.Content}
			if f.Name != "" {
				nm := f.Name
				if sc.OutPrefix == "$OUT" && outPath != "" && !f.Abs {
					nm = outPath + "/" + nm
				}
				g.Name = &nm
			}
			if f.IP != "" {
				ip := f.IP
				g.InsertionPoint = &ip
			}
			res.Contents = append(res.Contents, g)
		}
		out, _ = plugin.MarshalResponse(res)
	}
	clean := sha(out)
	switch sc.Mangle {
	case "truncate":
		at := sc.MangleAt
		if len(out) > 0 {
			at %= len(out)
			if at < 0 {
				at = -at
			}
			out = out[:at]
		}
	case "flip":
		r := simrt.NewRand(sc.MangleSeed)
		k := 1 + r.Intn(4)
		out = append([]byte(nil), out...)
		for i := 0; i < k && len(out) > 0; i++ {
			out[r.Intn(len(out))] ^= 1 << uint(r.Intn(8))
		}
	case "random":
		r := simrt.NewRand(sc.MangleSeed)
		out = make([]byte, 1+r.Intn(64))
		for i := range out {
			out[i] = byte(r.Uint64())
		}
	case "append":
		out = append(append([]byte(nil), out...), []byte("trailing garbage \x00\x01\x02")...)
	case "empty":
		out = nil
	}
	p.Note("out.sha256", sha(out))
	p.Note("out.len", len(out))
	p.Note("out.mangled", sha(out) != clean)
	p.Note("out.class", classifyResponse(out))
	limit := len(out)
	if sc.ExitAfter != nil && *sc.ExitAfter < limit && *sc.ExitAfter >= 0 {
		limit = *sc.ExitAfter
		p.Note("out.cut_at", limit)
		p.Note("out.class", classifyResponse(out[:limit]))
	}
	chunks := sc.Chunks
	if chunks <= 0 {
		chunks = 1
	}
	per := (limit + chunks - 1) / chunks
	if per == 0 {
		per = 1
	}
	for off := 0; off < limit; off += per {
		end := off + per
		if end > limit {
			end = limit
		}
		p.Write(1, out[off:end])
		if off == 0 && sc.DelayMid > 0 && chunks > 1 {
			p.Sleep(time.Duration(sc.DelayMid))
		}
	}
	p.Note("out.written", limit)
	if sc.DelayAfter > 0 {
		p.Sleep(time.Duration(sc.DelayAfter))
	}
	if dies("after") {
		p.Die("killed")
	}
	if sc.Hang == "after" {
		p.Hang()
	}
	return sc.Exit
}

// pluginPredatesTrailer: a proper release version below v0.4.2 (what such an executable was built
// against decides how it decodes; pseudo, (devel) and missing versions say nothing and decode as today).
func pluginPredatesTrailer(v string) bool {
	if len(v) < 2 || v[0] != 'v' {
		return false
	}
	core := v[1:]
	if i := strings.IndexAny(core, "-+"); i >= 0 {
		core = core[:i]
	}
	parts := strings.Split(core, ".")
	if len(parts) != 3 {
		return false
	}
	var n [3]int
	for i, s := range parts {
		x, err := strconv.Atoi(s)
		if err != nil {
			return false
		}
		n[i] = x
	}
	if n[0] != 0 {
		return false
	}
	return n[1] < 4 || (n[1] == 4 && n[2] < 2)
}
