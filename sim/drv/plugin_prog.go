package drv

import (
	"encoding/json"

	"github.com/cloudwego/thriftgo/internal/verifsim/simrt"
)

func pluginProgram(p *simrt.Proc, script json.RawMessage) int { return 0 }
