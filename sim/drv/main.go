// Package drv holds the simulation drivers and oracles that run inside the
// instrumented thriftgo binary (thriftgo-sim).
package drv

import (
	"encoding/json"
	"fmt"
	"os"
	"sort"

	"github.com/cloudwego/thriftgo/internal/verifsim/simrt"
	"github.com/cloudwego/thriftgo/plugin"
	"github.com/cloudwego/thriftgo/sdk"
)

// recSDK is an in-process plugin of the host program: it records what it is handed and contributes
// nothing.  GetPluginParameters returns the plugin's own slice every time, as a real one does.
type recSDK struct {
	name   string
	params []string
	want   []string
	calls  int
}

func (s *recSDK) GetName() string               { return s.name }
func (s *recSDK) GetPluginParameters() []string { return s.params }
func (s *recSDK) Invoke(req *plugin.Request) *plugin.Response {
	s.calls++
	simrt.Tap("sdk.invoke", map[string]interface{}{
		"call": s.calls, "language": req.Language, "output_path": req.OutputPath,
		"seen": append([]string{}, req.PluginParameters...), "own_now": append([]string{}, s.params...), "configured": s.want,
	})
	return &plugin.Response{}
}

func writeJSON(path string, v interface{}) {
	b, err := json.Marshal(v)
	if err != nil {
		fmt.Fprintln(os.Stderr, "drv: marshal result:", err)
		os.Exit(3)
	}
	if err := os.WriteFile(path, b, 0o644); err != nil {
		fmt.Fprintln(os.Stderr, "drv: write result:", err)
		os.Exit(3)
	}
}

// Main is the entry point of thriftgo-sim; orig is thriftgo's real main.
func Main(orig func()) {
	if w := simrt.BootWorld(); w != nil {
		runCmdWorld(w, orig)
		return
	}
	if b := os.Getenv("VERIF_BATCH"); b != "" {
		runBatch(b)
		return
	}
	fmt.Fprintln(os.Stderr, "thriftgo-sim: set VERIF_WORLD (command world) or VERIF_BATCH (library batch)")
	os.Exit(3)
}

func runCmdWorld(w *simrt.World, orig func()) {
	out := os.Getenv("VERIF_RESULT")
	if out == "" {
		fmt.Fprintln(os.Stderr, "thriftgo-sim: VERIF_RESULT not set")
		os.Exit(3)
	}
	simrt.ProgramHandler = pluginProgram
	w.OnExit = func(w *simrt.World) {
		if w.Res.Panic != "" {
			fmt.Fprintln(os.Stderr, w.Res.Panic)
		}
		writeJSON(out, w.Res)
		os.Exit(0)
	}
	// a session world: earlier invocations in the same process (as an SDK user would make them),
	// then the invocation under observation
	var sess struct {
		Prelude       [][]string        `json:"prelude"`
		PreludeWd     []string          `json:"prelude_wd"`     // per earlier invocation: "" = sdk.InvokeThriftgo, else sdk.RunThriftgoAsSDK(wd, ...)
		PreludeRemove []string          `json:"prelude_remove"` // removed after the earlier invocations (an obstacle that made one of them fail, repaired before the observed one)
		PreludeWrite  map[string][]byte `json:"prelude_write"`  // written after the earlier invocations (what happened to the disk in between)
		PreludeMkdir  []string          `json:"prelude_mkdir"`
		PreludeCwd    []string          `json:"prelude_cwd"` // per earlier invocation: the directory the process stands in meanwhile ("" = where it started)
		Twins         [][]string        `json:"twins"`       // command lines that other callers of the process run AT THE SAME TIME as the observed invocation, each with its own Generator and backends
		SdkPlugin     *struct {
			Name   string   `json:"name"`
			Params []string `json:"params"`
		} `json:"sdk_plugin"` // an in-process (SDK) plugin of the host: the same object is handed to every sdk.InvokeThriftgo call of the world, and the observed invocation is such a call too
		SdkWd string `json:"sdk_wd"` // not empty: the invocation under observation is sdk.RunThriftgoAsSDK(wd, nil, args...) instead of main()
	}
	if len(w.Spec.Driver) > 0 {
		_ = json.Unmarshal(w.Spec.Driver, &sess)
	}
	var sdks []plugin.SDKPlugin
	if sess.SdkPlugin != nil {
		sdks = []plugin.SDKPlugin{&recSDK{name: sess.SdkPlugin.Name, params: append([]string(nil), sess.SdkPlugin.Params...), want: append([]string(nil), sess.SdkPlugin.Params...)}}
	}
	res := w.Run(func() {
		for i, args := range sess.Prelude {
			func() {
				defer func() {
					if r := recover(); r != nil {
						if fmt.Sprintf("%T", r) == "simrt.abortPanic" {
							panic(r)
						}
						simrt.Log("prelude.panic", fmt.Sprint(i))
					}
				}()
				var err error
				if i < len(sess.PreludeCwd) && sess.PreludeCwd[i] != "" {
					if home, e := simrt.Getwd(); e == nil && simrt.Chdir(sess.PreludeCwd[i]) == nil {
						defer simrt.Chdir(home)
					}
				}
				if i < len(sess.PreludeWd) && sess.PreludeWd[i] != "" {
					err = sdk.RunThriftgoAsSDK(sess.PreludeWd[i], nil, args[1:]...)
				} else {
					err = sdk.InvokeThriftgo(sdks, args...)
				}
				simrt.Log("prelude.done", fmt.Sprintf("%d err=%v", i, err != nil))
			}()
		}
		for _, p := range sess.PreludeRemove {
			_ = simrt.Remove(p)
		}
		for _, p := range sess.PreludeMkdir {
			_ = simrt.MkdirAll(p, 0o755)
		}
		if len(sess.PreludeWrite) > 0 {
			names := make([]string, 0, len(sess.PreludeWrite))
			for n := range sess.PreludeWrite {
				names = append(names, n)
			}
			sort.Strings(names)
			for _, n := range names {
				_ = simrt.WriteFile(n, sess.PreludeWrite[n], 0o644)
			}
		}
		if len(sess.Prelude) > 0 {
			simrt.Boundary("main")
			// what the observed invocation prints is what follows this mark
			fmt.Fprint(os.Stdout, "\x00verif-session-boundary\x00\n")
			fmt.Fprint(os.Stderr, "\x00verif-session-boundary\x00\n")
		}
		for i, targs := range sess.Twins {
			i, targs := i, targs
			simrt.Go("twin-generation", func() {
				defer func() {
					if r := recover(); r != nil {
						if fmt.Sprintf("%T", r) == "simrt.abortPanic" {
							panic(r)
						}
						simrt.Log("twin.panic", fmt.Sprint(i, " ", r))
						simrt.Hit("twin.panicked")
					}
				}()
				err := ownInvoke(targs...)
				simrt.Log("twin.done", fmt.Sprintf("%d err=%v", i, err))
				if err != nil {
					simrt.Hit("twin.failed")
				} else {
					simrt.Hit("twin.succeeded")
				}
			})
		}
		if sdks != nil && sess.SdkWd == "" {
			// a host program with an in-process plugin: the call main() makes, with the plugin handed in
			if err := sdk.InvokeThriftgo(sdks, w.Spec.Args...); err != nil {
				fmt.Fprintln(os.Stderr, err)
				simrt.Exit(2)
			}
			return
		}
		if sess.SdkWd != "" {
			// what cmd/thriftgo's main does with the error of the same call: message, exit 2
			if err := sdk.RunThriftgoAsSDK(sess.SdkWd, nil, w.Spec.Args[1:]...); err != nil {
				fmt.Fprintln(os.Stderr, err)
				simrt.Exit(2)
			}
			return
		}
		orig()
	})
	if res.Panic != "" {
		fmt.Fprintln(os.Stderr, res.Panic)
	}
	writeJSON(out, res)
	os.Exit(0)
}
