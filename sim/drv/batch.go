package drv

import (
	"encoding/json"
	"fmt"
	"os"
	"regexp"
	"sort"

	"github.com/cloudwego/thriftgo/internal/verifsim/simrt"
)

// BatchReq asks thriftgo-sim to run many library-level worlds in one process.
type BatchReq struct {
	Kind          string        `json:"kind"`
	Tier          string        `json:"tier"`
	Base          uint64        `json:"base"`
	From          uint64        `json:"from"`
	To            uint64        `json:"to"`
	Specs         []*simrt.Spec `json:"specs,omitempty"`
	MaxViolations int           `json:"max_violations"`
	KeepLog       bool          `json:"keep_log,omitempty"`
	Samples       int           `json:"samples,omitempty"`
	Hashes        bool          `json:"hashes,omitempty"` // report the event-log hash of every run (determinism self-test)
	// KnownSigRe: signatures of listed known findings.  The first world of each is reported (Known),
	// further ones are only counted: a listed finding must not use up the violation budget and end
	// the exploration early.
	KnownSigRe []string `json:"known_sig_re,omitempty"`
}

// Outcome of one world.
type Outcome struct {
	Class      string          `json:"class,omitempty"` // "" = property held
	Msg        string          `json:"msg,omitempty"`
	Sig        string          `json:"sig,omitempty"` // stable identity of what fails (for known findings)
	LogHash    string          `json:"log_hash"`
	SchedFP    string          `json:"sched_fp"`
	Branching  int             `json:"branching"`
	Nontrivial bool            `json:"nontrivial"`
	CaseKey    string          `json:"case_key,omitempty"` // identity of the case for distinct counting
	Detail     json.RawMessage `json:"detail,omitempty"`
	Result     *simrt.Result   `json:"result,omitempty"`
}

type Violation struct {
	Spec    *simrt.Spec `json:"spec"`
	Class   string      `json:"class"`
	Msg     string      `json:"msg"`
	Sig     string      `json:"sig"`
	LogHash string      `json:"log_hash"`
	// where in which batch this world ran: the worlds before it in the same process are its history
	Base  uint64 `json:"base"`
	From  uint64 `json:"from"`
	Index uint64 `json:"index"`
}

// BatchRes is the aggregate a batch process reports.
type BatchRes struct {
	Kind       string            `json:"kind"`
	Runs       int               `json:"runs"`
	Violations []Violation       `json:"violations,omitempty"`
	Counters   map[string]int    `json:"counters"`
	CaseKeys   []uint64          `json:"case_keys"` // hashes of distinct non-trivial cases
	States     []string          `json:"states"`    // distinct abstract states
	SimNanos   int64             `json:"sim_ns"`
	Steps      int64             `json:"steps"`
	Samples    []json.RawMessage `json:"samples,omitempty"`
	Outcomes   []*Outcome        `json:"outcomes,omitempty"`
	Hashes     []string          `json:"hashes,omitempty"`
	Known      []Violation       `json:"known,omitempty"`
	KnownHits  int               `json:"known_hits,omitempty"`
}

// Agg collects statistics across the worlds of a batch.
type Agg struct {
	Counters map[string]int
	caseKeys map[uint64]struct{}
	states   map[string]struct{}
	simNanos int64
	steps    int64
}

func (a *Agg) Count(k string, n int) { a.Counters[k] += n }
func (a *Agg) State(s string)        { a.states[s] = struct{}{} }
func (a *Agg) merge(res *simrt.Result) {
	for k, v := range res.Counters {
		a.Counters[k] += v
	}
	a.simNanos += res.SimNanos
	a.steps += int64(res.Steps)
}

type driver interface {
	Gen(seed uint64, tier string) *simrt.Spec
	Run(spec *simrt.Spec, agg *Agg, keep bool) *Outcome
}

var drivers = map[string]driver{}

func hash64(s string) uint64 {
	h := uint64(14695981039346656037)
	for i := 0; i < len(s); i++ {
		h ^= uint64(s[i])
		h *= 1099511628211
	}
	return h
}

func runBatch(path string) {
	out := os.Getenv("VERIF_RESULT")
	b, err := os.ReadFile(path)
	if err != nil {
		fmt.Fprintln(os.Stderr, "drv:", err)
		os.Exit(3)
	}
	var req BatchReq
	if err := json.Unmarshal(b, &req); err != nil {
		fmt.Fprintln(os.Stderr, "drv: bad batch request:", err)
		os.Exit(3)
	}
	if req.Kind == "options" {
		writeJSON(out, backendOptions())
		os.Exit(0)
	}
	d := drivers[req.Kind]
	if d == nil {
		fmt.Fprintln(os.Stderr, "drv: unknown batch kind", req.Kind)
		os.Exit(3)
	}
	simrt.ProgramHandler = pluginProgram
	agg := &Agg{Counters: map[string]int{}, caseKeys: map[uint64]struct{}{}, states: map[string]struct{}{}}
	res := &BatchRes{Kind: req.Kind}
	if req.MaxViolations <= 0 {
		req.MaxViolations = 3
	}
	var knownRe []*regexp.Regexp
	for _, k := range req.KnownSigRe {
		if re, err := regexp.Compile(k); err == nil {
			knownRe = append(knownRe, re)
		}
	}
	knownSeen := map[string]bool{}
	var curIndex uint64
	one := func(spec *simrt.Spec, explicit bool) bool {
		if req.KeepLog {
			spec.KeepLog = true
		}
		o := d.Run(spec, agg, explicit)
		res.Runs++
		if req.Hashes {
			res.Hashes = append(res.Hashes, o.LogHash+"/"+o.Class)
		}
		if o.Sig == "" {
			o.Sig = o.Class
		}
		if o.Nontrivial {
			agg.caseKeys[hash64(o.CaseKey)] = struct{}{}
		}
		if explicit {
			res.Outcomes = append(res.Outcomes, o)
		}
		if len(res.Samples) < req.Samples && o.Nontrivial {
			sb, _ := json.Marshal(map[string]interface{}{"spec": spec, "class": o.Class, "branching": o.Branching, "detail": o.Detail})
			res.Samples = append(res.Samples, sb)
		}
		if o.Class != "" && !explicit {
			for _, re := range knownRe {
				if re.MatchString(o.Sig) {
					res.KnownHits++
					if !knownSeen[o.Sig] {
						knownSeen[o.Sig] = true
						res.Known = append(res.Known, Violation{Spec: spec, Class: o.Class, Msg: o.Msg, Sig: o.Sig, LogHash: o.LogHash})
					}
					return true
				}
			}
			res.Violations = append(res.Violations, Violation{Spec: spec, Class: o.Class, Msg: o.Msg, Sig: o.Sig, LogHash: o.LogHash, Base: req.Base, From: req.From, Index: curIndex})
			if len(res.Violations) >= req.MaxViolations {
				return false
			}
		}
		return true
	}
	if len(req.Specs) > 0 {
		for _, sp := range req.Specs {
			one(sp, true)
		}
	} else {
		for i := req.From; i < req.To; i++ {
			seed := simrt.Mix(req.Base, i)
			curIndex = i
			if !one(d.Gen(seed, req.Tier), false) {
				break
			}
		}
	}
	res.Counters = agg.Counters
	for k := range agg.caseKeys {
		res.CaseKeys = append(res.CaseKeys, k)
	}
	sort.Slice(res.CaseKeys, func(i, j int) bool { return res.CaseKeys[i] < res.CaseKeys[j] })
	for s := range agg.states {
		res.States = append(res.States, s)
	}
	sort.Strings(res.States)
	res.SimNanos, res.Steps = agg.simNanos, agg.steps
	writeJSON(out, res)
	os.Exit(0)
}
