package drv

import (
	"fmt"

	targs "github.com/cloudwego/thriftgo/args"
	"github.com/cloudwego/thriftgo/generator"
	"github.com/cloudwego/thriftgo/generator/fastgo"
	"github.com/cloudwego/thriftgo/generator/golang"
	"github.com/cloudwego/thriftgo/parser"
	"github.com/cloudwego/thriftgo/plugin"
	"github.com/cloudwego/thriftgo/semantic"
	"github.com/cloudwego/thriftgo/version"
)

// ownInvoke does what sdk.InvokeThriftgo does for a command line without plugins, with objects
// that belong to this caller alone: its own AST, its own generator.Generator, its own backend
// objects.  It is what another component of a host program does when it generates code at the
// same time as the invocation under observation (the sdk package's own entry points share one
// package-level Generator and are therefore not called concurrently here).
func ownInvoke(args ...string) (err error) {
	var a targs.Arguments
	if err = a.Parse(args); err != nil {
		return err
	}
	log := a.MakeLogFunc()
	ast, err := parser.ParseFile(a.IDL, a.Includes, true)
	if err != nil {
		return err
	}
	if path := parser.CircleDetect(ast); len(path) > 0 {
		return fmt.Errorf("found include circle:\n\t%s", path)
	}
	checker := semantic.NewChecker(semantic.Options{FixWarnings: true})
	if _, err = checker.CheckAll(ast); err != nil {
		return err
	}
	if err = semantic.ResolveSymbols(ast); err != nil {
		return err
	}
	req := &plugin.Request{Version: version.ThriftgoVersion, OutputPath: a.OutputPath, Recursive: a.Recursive, AST: ast}
	langs, err := a.Targets()
	if err != nil {
		return err
	}
	var g generator.Generator
	_ = g.RegisterBackend(new(golang.GoBackend))
	_ = g.RegisterBackend(new(fastgo.FastGoBackend))
	for _, out := range langs {
		req.Language = out.Language
		req.OutputPath = a.Output(out.Language)
		res := g.Generate(&generator.Arguments{Out: out, Req: req, Log: log})
		if err = g.Persist(res); err != nil {
			return err
		}
	}
	return nil
}
