package drv

import (
	"encoding/json"
	"errors"
	"fmt"
	"path/filepath"
	"sort"
	"strings"
	"sync"

	"github.com/cloudwego/thriftgo/generator"
	"github.com/cloudwego/thriftgo/generator/backend"
	"github.com/cloudwego/thriftgo/internal/verifsim/simrt"
	"github.com/cloudwego/thriftgo/plugin"
	"github.com/cloudwego/thriftgo/utils/dir_utils"
)

// C19 — concurrent persist.  The pool, the select, the channels, the
// WaitGroup, the path resolution and the write callback are thriftgo's;
// backend, disk and scheduler are the simulator's.

type C19Job struct {
	Name string `json:"name"`
	Size int    `json:"size"`
	PP   string `json:"pp,omitempty"` // "" ok | "fail" | "failkeep" (returns content and error) | "panic" (the post-processor panics on this file)
}

type C19Work struct {
	Jobs     []C19Job `json:"jobs"`
	GlobalWd string   `json:"global_wd,omitempty"`
	NoPP     bool     `json:"no_pp,omitempty"`
	WarmCwd  string   `json:"warm_cwd,omitempty"` // an earlier Persist of the same generator state, made from another working directory (SDK host that chdirs between calls)
	PPYields int      `json:"pp_yields,omitempty"`
	// OtherFirst: the same Generator served another target language before ("pp" = a backend with its
	// own post-processor, "plain" = one without): the files of this call are post-processed by this
	// call's backend, or by nobody if it has no post-processor
	OtherFirst string `json:"other_first,omitempty"`
	// WarmSame: the same Generator persisted the same response before (fault plan applies there too);
	// then somebody else overwrote or truncated some of the files (Clobber: job indexes); the observed
	// call must write every file again
	WarmSame bool `json:"warm_same,omitempty"`
	// SameObjects: the observed call is handed the very response object the earlier call was handed (a host
	// that retries Persist(res) after repairing what made it fail)
	SameObjects bool `json:"same_objects,omitempty"`
	// Rival: that many files are persisted at the same time by ANOTHER caller of the process (its own
	// Generator, a backend without post-processor), into the directories of this call's first files; only in
	// worlds without any injected fault.  Both calls must succeed and every file of both must hold its own content.
	Rival   int   `json:"rival,omitempty"`
	Clobber []int `json:"clobber,omitempty"`
}

type c19Driver struct{}

func init() { drivers["c19"] = c19Driver{} }

func c19Content(name string, size int) string {
	var sb strings.Builder
	i := 0
	for sb.Len() < size {
		fmt.Fprintf(&sb, "<%s#%d>", name, i)
		i++
	}
	return sb.String()
}

func c19Trailer(path string) string { return "//pp:" + path + "\n" }

var c19Dirs = []string{"", "gen/", "gen/a/", "gen/a/b/", "gen/c/", "x/y/z/", "/abs/out/", "/abs/out/p/"}

func (c19Driver) Gen(seed uint64, tier string) *simrt.Spec {
	r := simrt.NewRand(seed)
	sp := &simrt.Spec{Kind: "c19", Seed: seed, Cwd: "/work"}
	switch r.Intn(10) {
	case 0, 1, 2, 3, 4:
		sp.Strategy = "random"
	case 5, 6, 7:
		sp.Strategy = "pct"
		sp.PCTDepth = 1 + r.Intn(3)
	default:
		sp.Strategy = "rtb"
	}
	sp.Parallelism = 1 + r.Intn(16)
	if r.Chance(1, 3) {
		sp.Parallelism = 1 + r.Intn(3)
	}
	sp.Chunk = 8 << r.Intn(5)
	var w C19Work
	n := 0
	switch r.Intn(10) {
	case 0:
		n = 0
	case 1, 2, 3, 4, 5:
		n = 1 + r.Intn(6)
	case 6, 7, 8:
		n = 4 + r.Intn(12)
	default:
		n = 10 + r.Intn(31)
	}
	failMode := r.Intn(6) // 0,1: none; 2: few; 3: many; 4: all; 5: fs only
	for i := 0; i < n; i++ {
		j := C19Job{Name: fmt.Sprintf("%sf%d.go", c19Dirs[r.Intn(len(c19Dirs))], i), Size: r.Intn(200)}
		switch failMode {
		case 2:
			if r.Chance(1, 6) {
				j.PP = "fail"
			}
		case 3:
			if r.Chance(1, 2) {
				j.PP = "fail"
			}
		case 4:
			j.PP = "fail"
		}
		if j.PP == "fail" && r.Chance(1, 4) {
			j.PP = "failkeep"
		}
		if j.PP == "fail" && failMode == 2 && r.Chance(1, 5) {
			// a post-processor that panics on this file: the process may die of it (that is no success
			// report), or Persist may turn it into an error; it must not return nil
			j.PP = "panic"
		}
		w.Jobs = append(w.Jobs, j)
	}
	if r.Chance(1, 25) && n > 0 {
		w.Jobs[r.Intn(n)].Name = "" // an unnamed entry: Persist must refuse
	}
	if r.Chance(1, 5) {
		w.GlobalWd = []string{"/work", "/work/sub", "/elsewhere"}[r.Intn(3)]
	}
	w.NoPP = r.Chance(1, 10)
	if w.GlobalWd != "" && r.Chance(1, 2) {
		w.WarmCwd = []string{"/w2", "/w2/deep", "/"}[r.Intn(3)]
		sp.Dirs = append(sp.Dirs, "/w2/deep")
	}
	w.PPYields = r.Intn(4)
	if r.Chance(1, 8) {
		w.OtherFirst = []string{"pp", "plain"}[r.Intn(2)]
	}
	if n > 0 && r.Chance(1, 8) {
		w.WarmSame = true
		w.SameObjects = r.Chance(1, 2)
		for k := 0; k < 1+r.Intn(3); k++ {
			w.Clobber = append(w.Clobber, r.Intn(n))
		}
	}
	// storage faults
	if failMode >= 2 && n > 0 {
		k := r.Intn(3)
		if failMode == 5 {
			k = 1 + r.Intn(3)
		}
		for i := 0; i < k; i++ {
			ft := simrt.FSFault{Nth: r.Intn(n + 1)}
			switch r.Intn(5) {
			case 0:
				ft.Op, ft.Kind = "mkdir", []string{"EACCES", "ENOSPC", "EIO", "EROFS"}[r.Intn(4)]
			case 1:
				ft.Op, ft.Kind = "write", []string{"EACCES", "ENOSPC", "EIO", "EMFILE", "EROFS"}[r.Intn(5)]
			default:
				ft.Op, ft.Kind, ft.After = "write", "short", r.Intn(120)
			}
			if r.Chance(1, 2) {
				ft.Match = fmt.Sprintf("f%d.go", r.Intn(n))
				ft.Nth = 0
			}
			sp.FSFaults = append(sp.FSFaults, ft)
		}
		if r.Chance(1, 8) {
			sp.DiskCap = int64(1 + r.Intn(600))
		}
		if r.Chance(1, 8) {
			// a path component that is a file: MkdirAll fails with ENOTDIR
			sp.Files = map[string][]byte{"/work/gen/a": []byte("i am a file")}
		}
	}
	if r.Chance(1, 10) {
		// stale output from an earlier run must be overwritten completely
		if sp.Files == nil {
			sp.Files = map[string][]byte{}
		}
		for i := 0; i < n && i < 3; i++ {
			if w.Jobs[i].Name != "" && !filepath.IsAbs(w.Jobs[i].Name) && w.GlobalWd == "" {
				sp.Files["/work/"+w.Jobs[i].Name] = []byte(strings.Repeat("stale content ", 40))
			}
		}
	}
	if failMode < 2 && n > 0 && len(sp.FSFaults) == 0 && sp.DiskCap == 0 && w.GlobalWd == "" && w.OtherFirst == "" && !w.WarmSame && r.Chance(1, 4) {
		w.Rival = 1 + r.Intn(4)
	}
	sp.Driver, _ = json.Marshal(w)
	return sp
}

type c19Backend struct {
	w        *C19Work
	byPath   map[string]int // resolved path -> job index
	ppCalls  map[string]int
	ppFails  int
	ppPanics int
	ppLive   int
	log      []string
}

func (b *c19Backend) Name() string                              { return "sim" }
func (b *c19Backend) Lang() string                              { return "sim" }
func (b *c19Backend) Options() []plugin.Option                  { return nil }
func (b *c19Backend) BuiltinPlugins() []*plugin.Desc            { return nil }
func (b *c19Backend) GetPlugin(desc *plugin.Desc) plugin.Plugin { return nil }
func (b *c19Backend) Generate(req *plugin.Request, log backend.LogFunc) *plugin.Response {
	return plugin.NewResponse()
}

func (b *c19Backend) response() *plugin.Response {
	res := plugin.NewResponse()
	for i := range b.w.Jobs {
		j := &b.w.Jobs[i]
		g := &plugin.Generated{Content: c19Content(j.Name, j.Size)}
		if j.Name != "" {
			nm := j.Name
			g.Name = &nm
		}
		res.Contents = append(res.Contents, g)
	}
	return res
}

func (b *c19Backend) PostProcess(path string, content []byte) ([]byte, error) {
	b.ppCalls[path]++
	b.ppLive++
	defer func() { b.ppLive-- }()
	simrt.Log("pp.start", path)
	in := string(content)
	for i := 0; i < b.w.PPYields; i++ {
		simrt.Yield("pp")
	}
	if string(content) != in {
		simrt.Hit("pp.input-mutated")
	}
	idx, ok := b.byPath[path]
	if ok {
		switch b.w.Jobs[idx].PP {
		case "fail":
			b.ppFails++
			simrt.Hit("fault.pp")
			simrt.Log("pp.fail", path)
			return nil, errors.New("post-process failed for " + path)
		case "failkeep":
			b.ppFails++
			simrt.Hit("fault.pp")
			simrt.Log("pp.fail", path)
			return content, errors.New("post-process failed for " + path)
		case "panic":
			b.ppFails++
			b.ppPanics++
			simrt.Hit("fault.pp-panic")
			simrt.Log("pp.panic", path)
			panic("c19: the post-processor panics on " + path)
		}
	}
	out := append([]byte(in), c19Trailer(path)...)
	simrt.Log("pp.end", path)
	return out, nil
}

// c19Other: the backend of another target language served by the same Generator before
type c19Other struct{ plain bool }

func (c19Other) Name() string                              { return "other" }
func (c19Other) Lang() string                              { return "other" }
func (c19Other) Options() []plugin.Option                  { return nil }
func (c19Other) BuiltinPlugins() []*plugin.Desc            { return nil }
func (c19Other) GetPlugin(desc *plugin.Desc) plugin.Plugin { return nil }
func (c19Other) Generate(req *plugin.Request, log backend.LogFunc) *plugin.Response {
	return plugin.NewResponse()
}

type c19OtherPP struct{ c19Other }

func (c19OtherPP) PostProcess(path string, content []byte) ([]byte, error) {
	simrt.Hit("pp.by-the-other-backend")
	return append(append([]byte(nil), content...), []byte("//pp-of-the-other-language:"+path+"\n")...), nil
}

// hide PostProcess: a backend that is not a PostProcessor
type c19Plain struct{ b *c19Backend }

func (p c19Plain) Name() string                              { return "sim" }
func (p c19Plain) Lang() string                              { return "sim" }
func (p c19Plain) Options() []plugin.Option                  { return nil }
func (p c19Plain) BuiltinPlugins() []*plugin.Desc            { return nil }
func (p c19Plain) GetPlugin(desc *plugin.Desc) plugin.Plugin { return nil }
func (p c19Plain) Generate(req *plugin.Request, log backend.LogFunc) *plugin.Response {
	return p.b.Generate(req, log)
}

func c19Resolve(cwd, globalWd, name string) string {
	if filepath.IsAbs(name) {
		return filepath.Clean(name)
	}
	if globalWd != "" {
		return filepath.Clean(filepath.Join(globalWd, name))
	}
	return filepath.Clean(filepath.Join(cwd, name))
}

func (c19Driver) Run(spec *simrt.Spec, agg *Agg, keep bool) *Outcome {
	var work C19Work
	_ = json.Unmarshal(spec.Driver, &work)
	o := &Outcome{}
	cwd := spec.Cwd
	if cwd == "" {
		cwd = "/work"
	}
	be := &c19Backend{w: &work, byPath: map[string]int{}, ppCalls: map[string]int{}}
	hasUnnamed := false
	expPath := make([]string, len(work.Jobs))
	dupPaths := false
	for i, j := range work.Jobs {
		if j.Name == "" {
			hasUnnamed = true
			continue
		}
		p := c19Resolve(cwd, work.GlobalWd, j.Name)
		expPath[i] = p
		if _, dup := be.byPath[p]; dup {
			dupPaths = true
		}
		be.byPath[p] = i
	}
	// the path handed to PostProcess is the unresolved-but-joined one; map both spellings
	pre := map[string]bool{}
	for p := range spec.Files {
		pre[filepath.Clean(p)] = true
	}
	if work.WarmCwd != "" && work.GlobalWd != "" {
		pre[c19Resolve(cwd, work.GlobalWd, "warm/earlier.go")] = true
	}

	specK := *spec
	specK.KeepLog = true
	w := simrt.NewWorld(&specK)
	var perr error
	rivalFiles := map[string]string{}
	var rivalErr error
	rivalTask, rivalDone := "", false
	returned := false
	retStep := -1
	var stateSeq []string
	res := w.Run(func() {
		dir_utils.SetGlobalwd(work.GlobalWd)
		defer dir_utils.SetGlobalwd("")
		g := new(generator.Generator)
		var b backend.Backend = be
		if work.NoPP {
			b = c19Plain{be}
		}
		_ = g.RegisterBackend(b)
		lf := backend.DummyLogFunc()
		if work.OtherFirst != "" {
			var ob backend.Backend = c19Other{}
			if work.OtherFirst == "pp" {
				ob = c19OtherPP{}
			}
			_ = g.RegisterBackend(ob)
			_ = g.Generate(&generator.Arguments{Out: &generator.LangSpec{Language: "other"}, Req: &plugin.Request{Language: "other"}, Log: lf})
		}
		gres := g.Generate(&generator.Arguments{
			Out: &generator.LangSpec{Language: "sim"},
			Req: &plugin.Request{Language: "sim"},
			Log: lf,
		})
		_ = gres
		if work.WarmCwd != "" && work.GlobalWd != "" {
			// an earlier call from another working directory; what it leaves behind must not matter
			if simrt.Chdir(work.WarmCwd) == nil {
				nm := "warm/earlier.go"
				_ = g.Persist(&plugin.Response{Contents: []*plugin.Generated{{Name: &nm, Content: "package warm\n"}}})
				_ = simrt.Chdir(cwd)
				dir_utils.SetGlobalwd(work.GlobalWd)
			}
			simrt.Boundary("observed-call")
		}
		var earlier *plugin.Response
		if work.WarmSame {
			earlier = be.response()
			_ = g.Persist(earlier)
			for _, ci := range work.Clobber {
				if ci >= 0 && ci < len(expPath) && expPath[ci] != "" {
					if _, err := simrt.Stat(expPath[ci]); err == nil {
						_ = simrt.WriteFile(expPath[ci], []byte("overwritten by somebody else after the earlier call\n"), 0o644)
					}
				}
			}
			be.ppCalls, be.ppFails, be.ppLive = map[string]int{}, 0, 0
			simrt.Boundary("observed-call")
		}
		// Persist is handed the entries directly (Generate above only installs the
		// post-processor and the logger), so the response is exactly the job list
		pres := be.response()
		if work.SameObjects && earlier != nil {
			pres = earlier
		}
		var rwg sync.WaitGroup
		if work.Rival > 0 {
			rresp := plugin.NewResponse()
			for k := 0; k < work.Rival; k++ {
				dir := ""
				if k < len(work.Jobs) {
					dir = filepath.Dir(work.Jobs[k].Name)
				}
				name := filepath.Join(dir, fmt.Sprintf("rival%d.txt", k))
				rivalFiles[c19Resolve(cwd, work.GlobalWd, name)] = fmt.Sprintf("<rival file %d>%s", k, strings.Repeat("r", 40*k+7))
				nm := name
				rresp.Contents = append(rresp.Contents, &plugin.Generated{Name: &nm, Content: rivalFiles[c19Resolve(cwd, work.GlobalWd, name)]})
			}
			simrt.WGAdd(&rwg, 1)
			simrt.Go("c19-rival", func() {
				defer simrt.WGDone(&rwg)
				rivalTask = simrt.CurTask()
				g2 := new(generator.Generator)
				_ = g2.RegisterBackend(c19Other{})
				_ = g2.Generate(&generator.Arguments{Out: &generator.LangSpec{Language: "other"}, Req: &plugin.Request{Language: "other", OutputPath: "."}, Log: backend.DummyLogFunc()})
				rivalErr = g2.Persist(rresp)
				rivalDone = true
			})
		}
		simrt.Log("persist.call", "")
		perr = g.Persist(pres)
		simrt.Log("persist.return", fmt.Sprint(perr != nil))
		returned = true
		if work.Rival > 0 {
			simrt.WGWait(&rwg)
		}
	})
	dir_utils.SetGlobalwd("")
	agg.merge(res)
	o.LogHash, o.SchedFP, o.Branching = res.LogHash, res.SchedFP, res.Branching
	if keep {
		o.Result = res
	}
	_ = stateSeq

	fail := func(class, f string, a ...interface{}) *Outcome {
		if o.Class == "" {
			o.Class, o.Msg = class, fmt.Sprintf(f, a...)
		}
		return o
	}

	// the step at which Persist returned
	evs := res.Log
	if len(evs) == 0 {
		evs = res.Tail
	}
	for _, e := range evs {
		if e.Op == "persist.return" {
			retStep = e.Seq
		}
	}

	// what the other caller of the process did is not this call's doing: its file-system accesses are
	// judged on their own (below), not by the clauses about this call
	fslog := res.FSLog
	if work.Rival > 0 {
		fslog = nil
		for _, a := range res.FSLog {
			if rivalTask != "" && (a.Task == rivalTask || strings.HasPrefix(a.Task, rivalTask+".")) {
				continue
			}
			fslog = append(fslog, a)
		}
	}

	// clause 3: no deadlock / livelock
	if res.ExitHow == "deadlock" || res.ExitHow == "budget" {
		return fail("deadlock", "%s: %s", res.ExitHow, res.Verdict)
	}
	if res.ExitHow == "panic" {
		if be.ppPanics > 0 && strings.Contains(res.Panic, "c19: the post-processor panics on ") {
			// the injected panic took the process down: the caller is not told "success"
			simrt.Hit("pp-panic.process-died")
			return o
		}
		return fail("panic", "%s", firstLines(res.Panic, 12))
	}
	if !returned {
		return fail("no-return", "Persist did not return (%s)", res.ExitHow)
	}

	// what failed, according to the disk and the post-processor
	stepFailed := be.ppFails > 0
	var failedOps []string
	for _, a := range fslog {
		if a.Err != "" && (a.Op == "mkdirall" || a.Op == "mkdir" || a.Op == "open-w" || a.Op == "write" || a.Op == "close-w") {
			if strings.Contains(a.Err, "file exists") {
				continue
			}
			stepFailed = true
			failedOps = append(failedOps, a.Op+" "+a.Path+": "+a.Err)
		}
	}
	faultsConfigured := len(spec.FSFaults) > 0 || spec.DiskCap > 0 || hasUnnamed
	for _, j := range work.Jobs {
		if j.PP != "" && !work.NoPP {
			faultsConfigured = true
		}
	}
	// a pre-existing regular file where a job needs a directory makes MkdirAll fail by itself
	for p := range spec.Files {
		cp := filepath.Clean(p)
		for _, ep := range expPath {
			if ep != "" && strings.HasPrefix(ep, cp+"/") {
				faultsConfigured = true
			}
		}
	}

	// clause 2: failure => error
	if stepFailed && perr == nil {
		return fail("error-lost", "a step failed (%d post-process failures; %v) but Persist returned nil", be.ppFails, failedOps)
	}
	if hasUnnamed && perr == nil {
		return fail("error-lost", "an entry without a name was accepted")
	}
	// fault-free configurations must succeed
	if !stepFailed && !hasUnnamed && perr != nil {
		return fail("spurious-error", "no step failed but Persist returned %v", perr)
	}
	// ... and no step may fail when nothing was injected: such a failure is made by the code itself
	if !faultsConfigured && (stepFailed || perr != nil) {
		return fail("spurious-error", "nothing was injected (no failing post-process, no disk fault, no blocking file), yet a step failed (%v) and Persist returned %v", failedOps, perr)
	}

	// the other caller: nothing was injected, so its call succeeds too and its files hold their own content
	if work.Rival > 0 {
		agg.Count("probe.another-caller-persisting-at-the-same-time", 1)
		if !rivalDone {
			return fail("rival-call-disturbed", "the other caller's Persist did not return")
		}
		if rivalErr != nil {
			return fail("rival-call-disturbed", "nothing was injected, yet the Persist call another caller of the process made at the same time (own Generator, other file names, same directories) failed: %v", rivalErr)
		}
		var rps []string
		for p := range rivalFiles {
			rps = append(rps, p)
		}
		sort.Strings(rps)
		for _, p := range rps {
			if got, ok := res.Disk[p]; !ok || string(got) != rivalFiles[p] {
				return fail("rival-call-disturbed", "the other caller's Persist returned nil but %s holds %q, want %q", p, clip(string(got)), clip(rivalFiles[p]))
			}
		}
	}

	// clause 4: nothing in flight at return, nothing started afterwards
	if retStep >= 0 {
		for _, a := range fslog {
			if a.Seq > retStep && (a.Op == "mkdirall" || a.Op == "mkdir" || a.Op == "open-w" || a.Op == "write" || a.Op == "close-w" || a.Op == "rename") {
				return fail("in-flight-at-return", "Persist returned at event %d but task %s did %s %s at event %d", retStep, a.Task, a.Op, a.Path, a.Seq)
			}
		}
		for _, e := range evs {
			if e.Seq > retStep && (e.Op == "pp.start" || e.Op == "pp.end" || e.Op == "pp.fail") {
				// a post-process step running after the return can only lead to a late write; the write
				// itself is what the statement forbids, the late post-process is recorded as a probe
				agg.Count("probe.pp-after-return", 1)
				break
			}
		}
	}

	// clause 5: each path opened for writing at most once; own content only
	opens := map[string]int{}
	for _, a := range fslog {
		// a path is written by opening it for writing, or by renaming a finished temporary file onto it
		if (a.Op == "open-w" || a.Op == "rename") && a.Err == "" {
			opens[a.Path]++
		}
	}
	var openPaths []string
	for p := range opens {
		openPaths = append(openPaths, p)
	}
	sort.Strings(openPaths) // the verdict must not depend on map iteration in the oracle itself
	for _, p := range openPaths {
		n := opens[p]
		if n > 1 && !dupPaths {
			return fail("written-twice", "%s was opened for writing %d times in one call", p, n)
		}
		if _, ok := be.byPath[p]; !ok {
			if _, still := res.Disk[p]; !still {
				continue // a temporary file of the implementation's own that is gone (renamed or removed) by the end
			}
			return fail("foreign-path", "a file was written under %s, which is no entry's path", p)
		}
	}
	var ppPaths []string
	for p := range be.ppCalls {
		ppPaths = append(ppPaths, p)
	}
	sort.Strings(ppPaths)
	for _, p := range ppPaths {
		n := be.ppCalls[p]
		if n > 1 && !dupPaths {
			return fail("pp-twice", "%s was post-processed %d times", p, n)
		}
	}
	for i, j := range work.Jobs {
		if j.Name == "" {
			continue
		}
		p := expPath[i]
		want := c19Content(j.Name, j.Size)
		ppPath := ""
		for q := range be.ppCalls {
			if filepath.Clean(c19Resolve(cwd, "", q)) == p || filepath.Clean(q) == p {
				ppPath = q
			}
		}
		if !work.NoPP {
			// the trailer names the path PostProcess was given
			if ppPath != "" {
				want += c19Trailer(ppPath)
			}
		}
		got, on := res.Disk[p]
		if opens[p] == 0 {
			if perr == nil {
				return fail("missing-file", "Persist returned nil but %s was never written", p)
			}
			continue
		}
		if !on {
			return fail("missing-file", "%s was opened for writing but is not on the disk", p)
		}
		if perr == nil {
			if string(got) != want {
				return fail("wrong-content", "Persist returned nil but %s holds %q, want %q", p, clip(string(got)), clip(want))
			}
			if !work.NoPP && be.ppCalls[ppPath] != 1 {
				return fail("pp-count", "%s post-processed %d times", p, be.ppCalls[ppPath])
			}
		} else if !strings.HasPrefix(want, string(got)) && !dupPaths {
			return fail("mixed-content", "%s holds %q which is not a prefix of its own content %q", p, clip(string(got)), clip(want))
		}
	}
	if perr == nil {
		// no file that is not an entry (besides what was there before)
		var diskPaths []string
		for p := range res.Disk {
			diskPaths = append(diskPaths, p)
		}
		sort.Strings(diskPaths)
		for _, p := range diskPaths {
			if _, isRival := rivalFiles[p]; isRival {
				continue
			}
			if _, ok := be.byPath[p]; !ok && !pre[p] {
				return fail("foreign-path", "unexpected file %s", p)
			}
		}
	}

	// probes and reach
	if len(work.Jobs) == 0 {
		agg.Count("probe.zero-jobs", 1)
	}
	if spec.Parallelism == 1 {
		agg.Count("probe.parallelism-1", 1)
	}
	if perr != nil && stepFailed {
		agg.Count("probe.error-returned", 1)
		sel1, sel2 := false, false
		for _, e := range evs {
			if e.Op == "select-case" {
				if strings.HasSuffix(e.Obj, ":1") && strings.Contains(e.Obj, "generator.go") {
					sel1 = true
				}
				if strings.HasSuffix(e.Obj, ":0") && strings.Contains(e.Obj, "generator.go") {
					sel2 = true
				}
			}
		}
		_ = sel2
		if sel1 {
			agg.Count("probe.error-taken-by-dispatch-loop", 1)
		} else {
			agg.Count("probe.error-taken-by-final-poll", 1)
		}
	}
	if len(res.Leaked) > 0 {
		agg.Count("probe.tasks-blocked-forever-after-return", 1)
	}
	for _, e := range evs {
		if e.Op == "block" && strings.HasPrefix(e.Obj, "select") && e.Task == "0" {
			agg.Count("probe.dispatcher-blocked-on-full-semaphore", 1)
			break
		}
	}
	if retStep >= 0 {
		for _, e := range evs {
			if e.Seq > retStep && (e.Op == "end" || e.Op == "recv") {
				agg.Count("probe.worker-releasing-slot-after-return", 1)
				break
			}
		}
	}
	nFail := be.ppFails + len(failedOps)
	agg.State(fmt.Sprintf("jobs=%d par=%d failed=%d err=%v multiready=%d", bucket(len(work.Jobs)), bucket(spec.Parallelism), bucket(nFail), perr != nil, bucket(res.Counters["select.multi-ready"])))
	o.Nontrivial = res.Branching >= 2
	o.CaseKey = fmt.Sprintf("%s|%s|%d|%d", res.SchedFP, res.LogHash, len(work.Jobs), spec.Parallelism)
	if faultsConfigured {
		agg.Count("runs.fault-injecting", 1)
	} else {
		agg.Count("runs.fault-free", 1)
	}
	sort.Strings(failedOps)
	o.Detail, _ = json.Marshal(map[string]interface{}{"jobs": len(work.Jobs), "parallelism": spec.Parallelism, "strategy": spec.Strategy,
		"pp_failures": be.ppFails, "fs_failures": failedOps, "returned_error": perr != nil, "steps": res.Steps, "sched_decisions": res.Branching})
	return o
}

func bucket(n int) int {
	switch {
	case n <= 3:
		return n
	case n <= 6:
		return 5
	case n <= 12:
		return 10
	case n <= 24:
		return 20
	}
	return 40
}

func clip(s string) string {
	if len(s) > 160 {
		return s[:80] + "…" + s[len(s)-60:]
	}
	return s
}

func firstLines(s string, n int) string {
	ls := strings.Split(s, "\n")
	if len(ls) > n {
		ls = ls[:n]
	}
	return strings.Join(ls, "\n")
}
