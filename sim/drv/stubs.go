package drv

import (
	"encoding/json"
	"fmt"
	"os"

	"github.com/cloudwego/thriftgo/internal/verifsim/simrt"
)

func pluginProgram(p *simrt.Proc, script json.RawMessage) int { return 0 }

func runBatch(path string) {
	fmt.Fprintln(os.Stderr, "no batch drivers yet")
	os.Exit(3)
}
