package drv

import (
	"bytes"
	"encoding/json"
	"fmt"
	"runtime"

	"github.com/cloudwego/thriftgo/fieldmask"
	"github.com/cloudwego/thriftgo/internal/verifsim/simrt"
)

// C14, memory-reclamation phase.  Masks that live for one request: built,
// serialised through the process-wide cache (fieldmask.Marshal), dropped;
// a garbage collection runs between requests at seeded points.  What Marshal
// returns for a mask must be that mask's own text, whatever became of the
// masks serialised before it.
//
// The collector and the allocator are the REAL ones (they cannot be put
// behind a seam from outside the runtime): this phase is seeded but not part
// of the determinism self-test, and a finding of it is replayed by class, not
// by event-log hash (see DESIGN.md 10.7).

type c14gcDriver struct{}

func init() { drivers["c14gc"] = c14gcDriver{} }

type C14GCWork struct {
	Nonce  string    `json:"nonce"`
	Masks  []C14Mask `json:"masks"`
	Rounds int       `json:"rounds"`
	Every  int       `json:"every"` // a collection after every so many requests
	Step   int       `json:"step"`
}

func (c14gcDriver) Gen(seed uint64, tier string) *simrt.Spec {
	r := simrt.NewRand(seed)
	sp := &simrt.Spec{Kind: "c14gc", Seed: seed, MapMode: "sorted", Strategy: "rtb"}
	w := C14GCWork{Nonce: fmt.Sprintf("g%x", seed), Rounds: 200 + r.Intn(400), Every: 3 + r.Intn(12), Step: 1 + 2*r.Intn(4)}
	nm := 5 + r.Intn(8)
	for i := 0; i < nm; i++ {
		m := C14Mask{Black: r.Chance(1, 3), U: r.Intn(2)}
		np := 1 + r.Intn(3)
		for k := 0; k < np; k++ {
			m.Paths = append(m.Paths, c14GenPath(r, w.Nonce, m.U))
		}
		m.Paths = append(m.Paths, fmt.Sprintf("$.SMM{\"%s%d\"}.X.A", w.Nonce, i))
		w.Masks = append(w.Masks, m)
	}
	sp.Driver, _ = json.Marshal(w)
	return sp
}

func (c14gcDriver) Run(spec *simrt.Spec, agg *Agg, keep bool) *Outcome {
	var work C14GCWork
	_ = json.Unmarshal(spec.Driver, &work)
	o := &Outcome{}
	c14DescriptorOf(0)
	c14DescriptorOf(1)
	specK := *spec
	specK.KeepLog = true
	w := simrt.NewWorld(&specK)
	var class, sig, msg string
	nReq, nGC := 0, 0
	res := w.Run(func() {
		defer func() {
			if r := recover(); r != nil {
				if fmt.Sprintf("%T", r) == "simrt.abortPanic" {
					panic(r)
				}
				if class == "" {
					class, sig, msg = "panic", "panic:gc-phase", fmt.Sprintf("panic: %v", r)
				}
			}
		}()
		build := func(m C14Mask) *fieldmask.FieldMask {
			fm, err := fieldmask.Options{BlackListMode: m.Black}.NewFieldMask(c14DescriptorOf(m.U), m.Paths...)
			if err != nil {
				return nil
			}
			return fm
		}
		// each mask's own text, obtained without the cache
		texts := make([][]byte, len(work.Masks))
		for i, m := range work.Masks {
			if fm := build(m); fm != nil {
				if j, err := fm.MarshalJSON(); err == nil {
					texts[i] = append([]byte(nil), j...)
				}
			}
		}
		if len(work.Masks) == 0 {
			return
		}
		every := work.Every
		if every < 1 {
			every = 1
		}
		for k := 0; k < work.Rounds && class == ""; k++ {
			idx := (k * work.Step) % len(work.Masks)
			if texts[idx] == nil {
				continue
			}
			fm := build(work.Masks[idx])
			if fm == nil {
				continue
			}
			j, err := fieldmask.Marshal(fm)
			nReq++
			if err != nil || !bytes.Equal(j, texts[idx]) {
				class, sig = "cache-wrong-json", "cache-wrong-json:short-lived-mask"
				msg = fmt.Sprintf("request %d: fieldmask.Marshal of a fresh mask built from %q (black=%v) returned %s; that mask's own text is %s (err=%v); %d collections so far", k, work.Masks[idx].Paths, work.Masks[idx].Black, clip(string(j)), clip(string(texts[idx])), err, nGC)
			}
			fm = nil
			if k%every == every-1 {
				simrt.Log("gc", "")
				runtime.GC()
				nGC++
			}
		}
	})
	agg.merge(res)
	o.LogHash, o.SchedFP, o.Branching = res.LogHash, res.SchedFP, res.Branching
	if keep {
		o.Result = res
	}
	o.Class, o.Sig, o.Msg = class, sig, msg
	agg.Count("gcphase.requests", nReq)
	agg.Count("fault.gc-cycle-between-requests", nGC)
	agg.State(fmt.Sprintf("gc masks=%d rounds=%d every=%d", bucket(len(work.Masks)), bucket(work.Rounds), bucket(work.Every)))
	o.Nontrivial = nReq > 0 && nGC > 0
	o.CaseKey = string(spec.Driver)
	o.Detail, _ = json.Marshal(map[string]interface{}{"masks": len(work.Masks), "requests": nReq, "collections": nGC})
	return o
}
