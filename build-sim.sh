#!/bin/bash
# build-sim.sh <out-binary> [<repo-dir>] : instrument a scratch copy of the repo's working tree and build thriftgo-sim
set -e
export GOFLAGS=-mod=mod GOPROXY=off GOSUMDB=off GOTOOLCHAIN=local
OUT=$1; REPO=${2:-/repo}
S=$(mktemp -d /tmp/vsim.XXXXXX)
trap 'rm -rf "$S"' EXIT
rsync -a --exclude .git "$REPO"/ "$S"/
mkdir -p "$S/internal/verifsim/simrt" "$S/internal/verifsim/drv"
cp /verif/sim/simrt/*.go "$S/internal/verifsim/simrt/"; rm -f "$S"/internal/verifsim/simrt/*_test.go
cp /verif/sim/drv/*.go "$S/internal/verifsim/drv/"
/verif/bin/vinstr -dir "$S" -report "$OUT.report.json" || exit 2
(cd "$S" && go build -o "$OUT" .) || { [ -n "$KEEP" ] && cp -r "$S" /tmp/vsim-keep; exit 2; }
