package main

import (
	"encoding/json"
	"fmt"
	"path/filepath"
	"sort"
	"strings"
	"sync"
	"time"

	"verif/sim/idlgen"
	"verif/sim/simrt"
)

// C19, second workload (DESIGN.md 5.1): the real backends through the real
// main() on a simulated disk with write-side faults only.  Observable is the
// process: a failed mkdir / open / write step of the persist phase => non-zero
// exit; no failed step => exit 0 and the complete tree, each file holding the
// post-processed content of its own entry.

type c19CmdCase struct {
	Prog     string            `json:"program"`
	Files    map[string][]byte `json:"files"`
	Cwd      string            `json:"cwd"`
	Main     string            `json:"main"`
	Cfg      config            `json:"config"`
	Second   *config           `json:"second,omitempty"` // a second -g; then there is no -o and each language writes to ./gen-<language>
	FSFaults []simrt.FSFault   `json:"fs_faults,omitempty"`
	DiskCap  int64             `json:"disk_cap,omitempty"`
	Blocker  string            `json:"blocker,omitempty"` // a regular file sitting where an output directory is needed
	Env      map[string]string `json:"env,omitempty"`
	Strategy string            `json:"strategy"`
	Par      int               `json:"parallelism"`
	Chunk    int               `json:"chunk"`
	Seed     uint64            `json:"seed"`
}

func (c *c19CmdCase) spec() *simrt.Spec {
	cc := &cmdCase{Prog: &program{Files: c.Files, Cwd: c.Cwd, Main: c.Main}, Cfg: c.Cfg, Second: c.Second}
	sp := cc.spec(c.Seed)
	if c.Second != nil {
		var args []string
		for i := 0; i < len(sp.Args); i++ {
			if sp.Args[i] == "-o" && i+1 < len(sp.Args) {
				i++
				continue
			}
			args = append(args, sp.Args[i])
		}
		sp.Args = args
	}
	sp.FSFaults = c.FSFaults
	sp.DiskCap = c.DiskCap
	sp.Strategy = c.Strategy
	sp.Parallelism = c.Par
	sp.Chunk = c.Chunk
	if len(c.Env) > 0 {
		env := map[string]string{}
		for k, v := range sp.Env {
			env[k] = v
		}
		for k, v := range c.Env {
			env[k] = v
		}
		sp.Env = env
	}
	if c.Blocker != "" {
		files := map[string][]byte{}
		for k, v := range sp.Files {
			files[k] = v
		}
		files[c.Blocker] = []byte("not a directory")
		sp.Files = files
	}
	return sp
}

type c19CmdVerdict struct{ Class, Sig, Msg string }

func c19CmdJudge(c *c19CmdCase, wr *worldRun) (*c19CmdVerdict, bool) {
	v := &c19CmdVerdict{}
	res := wr.Res
	bad := func(class, f string, a ...interface{}) (*c19CmdVerdict, bool) {
		v.Class, v.Sig, v.Msg = class, "cmd:"+class, fmt.Sprintf(f, a...)
		return v, true
	}
	if res.ExitHow == "deadlock" || res.ExitHow == "budget" {
		return bad("deadlock", "the command never ends: %s", res.Verdict)
	}
	// a signal arrived while the files were being written: either it killed the process (the
	// caller sees a wait status that is not success: nothing more to ask), or the program had
	// asked for it - then it may end as it likes, but status 0 still means "everything is there"
	signalled := false
	for k, n := range res.Counters {
		if strings.HasPrefix(k, "signal.SIG") && n > 0 {
			signalled = true
		}
	}
	if signalled && (res.ExitHow == "signal" || res.Exit != 0) {
		return v, true
	}
	var failed []string
	for _, a := range res.FSLog {
		if a.Err != "" && (a.Op == "mkdirall" || a.Op == "mkdir" || a.Op == "open-w" || a.Op == "write" || a.Op == "close-w") && !strings.Contains(a.Err, "file exists") {
			failed = append(failed, a.Op+" "+a.Path+": "+a.Err)
		}
	}
	if len(failed) > 0 && len(c.FSFaults) == 0 && c.DiskCap == 0 && c.Blocker == "" {
		return bad("spurious-error", "no fault was injected, yet a write-side step failed (%s); exit status %d", failed[0], res.Exit)
	}
	if len(failed) > 0 {
		if res.Exit == 0 {
			return bad("error-lost", "a write-side step failed (%s) but thriftgo exited with status 0", failed[0])
		}
		return v, true
	}
	if res.Exit != 0 {
		return bad("spurious-error", "no write-side step failed but thriftgo exited with status %d: %s", res.Exit, clip(wr.Stderr, 300))
	}
	// complete tree with each file's own post-processed content
	noFmt := false
	for _, o := range c.Cfg.Opts {
		if o == "no_fmt" {
			noFmt = true
		}
	}
	opens := map[string]int{}
	for _, a := range res.FSLog {
		if a.Op == "open-w" && a.Err == "" {
			opens[a.Path]++
		}
	}
	for p, n := range opens {
		if n > 1 {
			return bad("written-twice", "%s was opened for writing %d times", p, n)
		}
	}
	groups := feedGroups(res)
	ptaps := persistTaps(res)
	langs := 1
	if c.Second != nil {
		langs = 2
	}
	if len(groups) != langs || len(ptaps) != langs {
		return bad("missing-file", "thriftgo exited with status 0 but the persist phase ran %d times for %d language(s), %d requested", len(ptaps), len(groups), langs)
	}
	all := true
	for gi := range groups {
		cls, _, msg, judged := judgeOutput(c.Cwd, noFmt && gi == 0, res, groups[gi], ptaps[gi], nil)
		if !judged {
			all = false
			continue
		}
		if cls != "" {
			if cls == "exit0-incomplete" {
				cls = "missing-file"
			}
			return bad(cls, "%s", msg)
		}
	}
	return v, all
}

// c19CmdPhase runs the command-level workload; it returns findings (already
// minimised, replayed) as reporter calls and some statistics.
func c19CmdPhase(a *artefacts, tier string, seed uint64, rep *reporter) map[string]interface{} {
	n := 260
	if tier == "thorough" {
		n = 12000
	}
	var mu sync.Mutex
	stats := map[string]int{}
	faults := map[string]int{}
	type found struct {
		c *c19CmdCase
		v *c19CmdVerdict
	}
	var founds []*found
	runs := 0
	deadline := time.Now().Add(4 * time.Minute)
	if tier == "thorough" {
		deadline = time.Now().Add(25 * time.Minute)
	}
	parallelMap(n, func(i int) {
		if time.Now().After(deadline) {
			return
		}
		cs := simrt.Mix(seed^0xc19c, uint64(i))
		r := simrt.NewRand(cs)
		prog := genProgram(simrt.Mix(cs, 1), idlgen.Options{MaxFiles: 5, MaxDefs: 5})
		c := &c19CmdCase{Prog: prog.Name, Files: prog.Files, Cwd: prog.Cwd, Main: prog.Main, Seed: cs,
			Strategy: []string{"random", "pct", "rtb"}[r.Intn(3)], Par: 1 + r.Intn(16), Chunk: 256 << r.Intn(5)}
		c.Cfg = config{Backend: []string{"go", "go", "fastgo"}[r.Intn(3)], Rec: true}
		if c.Cfg.Backend == "go" && r.Chance(1, 2) {
			c.Cfg.Opts = []string{"no_fmt"}
		}
		if r.Chance(1, 4) {
			// two target languages, each into its own ./gen-<language>: a fault while the first one is
			// written must not be forgotten because the second one went fine
			c.Second = &config{Backend: map[string]string{"go": "fastgo", "fastgo": "go"}[c.Cfg.Backend]}
		}
		// fault-free baseline (also tells which files are written)
		bw := runWorld(a, c.spec())
		mu.Lock()
		runs++
		mu.Unlock()
		if bw.Res != nil && bw.Res.Exit != 0 {
			// nothing was injected: a failing write-side step is the code's own doing
			for _, ac := range bw.Res.FSLog {
				if ac.Err != "" && (ac.Op == "mkdirall" || ac.Op == "mkdir" || ac.Op == "open-w" || ac.Op == "write") && !strings.Contains(ac.Err, "file exists") {
					mu.Lock()
					founds = append(founds, &found{c, &c19CmdVerdict{Class: "spurious-error", Sig: "cmd:spurious-error", Msg: fmt.Sprintf("no fault was injected, yet %s %s failed (%s) and thriftgo exited with status %d", ac.Op, ac.Path, ac.Err, bw.Res.Exit)}})
					mu.Unlock()
					return
				}
			}
		}
		if !accepted(bw) {
			mu.Lock()
			stats["cmd.discarded"]++
			mu.Unlock()
			return
		}
		if v, judged := c19CmdJudge(c, bw); v.Class != "" {
			mu.Lock()
			founds = append(founds, &found{c, v})
			mu.Unlock()
			return
		} else if judged {
			mu.Lock()
			stats["cmd.fault-free-judged"]++
			mu.Unlock()
		}
		var paths []string
		for _, ac := range bw.Res.FSLog {
			if ac.Op == "open-w" && ac.Err == "" {
				paths = append(paths, ac.Path)
			}
		}
		sort.Strings(paths)
		if len(paths) == 0 {
			return
		}
		fc := *c
		switch r.Intn(6) {
		case 5:
			// the process is sent SIGINT / SIGTERM while it writes this file (after that many bytes)
			p := paths[r.Intn(len(paths))]
			fc.FSFaults = []simrt.FSFault{{Op: "write", Match: p, Nth: 0, Kind: []string{"SIGTERM", "SIGINT"}[r.Intn(2)], After: r.Intn(1 + len(bw.Res.Disk[p]))}}
			if r.Chance(1, 2) {
				fc.Env = map[string]string{"THRIFTGO_DEBUG": "1"}
			}
		case 0:
			fc.FSFaults = []simrt.FSFault{{Op: "write", Match: paths[r.Intn(len(paths))], Nth: 0, Kind: []string{"EACCES", "EIO", "ENOSPC", "EMFILE"}[r.Intn(4)]}}
		case 1:
			fc.FSFaults = []simrt.FSFault{{Op: "write", Match: paths[r.Intn(len(paths))], Nth: 0, Kind: "short", After: r.Intn(2000)}}
		case 2:
			fc.FSFaults = []simrt.FSFault{{Op: "mkdir", Nth: r.Intn(len(paths)), Kind: []string{"EACCES", "ENOSPC", "EROFS"}[r.Intn(3)]}}
		case 3:
			total := 0
			for _, p := range paths {
				total += len(bw.Res.Disk[p])
			}
			fc.DiskCap = int64(1 + r.Intn(total))
		default:
			fc.Blocker = filepath.Dir(paths[r.Intn(len(paths))])
		}
		wr := runWorld(a, fc.spec())
		mu.Lock()
		runs++
		mu.Unlock()
		if wr.Res == nil {
			return
		}
		v, _ := c19CmdJudge(&fc, wr)
		mu.Lock()
		defer mu.Unlock()
		stats["cmd.fault-runs"]++
		for k, nn := range wr.Res.Counters {
			if strings.HasPrefix(k, "fault.fs.") || strings.HasPrefix(k, "signal.") {
				faults[k] += nn
			}
		}
		if fc.Blocker != "" {
			faults["fault.fs.blocker-file"]++
		}
		if wr.Res.Exit != 0 {
			stats["cmd.exit-nonzero"]++
		}
		if v.Class != "" {
			founds = append(founds, &found{&fc, v})
			return
		}
		if wr.Res.ExitHow == "signal" {
			// crash and restart: the process was killed while it wrote; only what is on the disk survives.
			// The same command run again by a fresh process, with no fault, must succeed and leave the
			// complete tree, whatever the killed run left behind (cut files, temporary files, lock files).
			rc := *c
			rc.Files = map[string][]byte{}
			for k, b := range c.Files {
				rc.Files[k] = b
			}
			debris := 0
			for k, b := range wr.Res.Disk {
				if _, isInput := c.Files[k]; !isInput {
					rc.Files[k] = b
					debris++
				}
			}
			rc.Seed = simrt.Mix(c.Seed, 0xdeb1)
			mu.Unlock()
			rw := runWorld(a, rc.spec())
			mu.Lock()
			runs++
			if rw.Res == nil {
				return
			}
			stats["cmd.restart-after-kill"]++
			if debris > 0 {
				stats["cmd.restart-after-kill.with-files-left-behind"]++
			}
			if rv, _ := c19CmdJudge(&rc, rw); rv.Class != "" {
				rv.Msg = "after an earlier run of the same command was killed by a signal while writing (" + fmt.Sprint(debris) + " file(s) left behind): " + rv.Msg
				rv.Sig += ":restart-after-kill"
				founds = append(founds, &found{&rc, rv})
			}
		}
	})
	seen := map[string]bool{}
	k := 0
	for _, f := range founds {
		if seen[f.v.Sig] || k >= 3 {
			continue
		}
		seen[f.v.Sig] = true
		payload, _ := json.Marshal(f.c)
		rf := &replayFile{Property: "C19", Kind: "cmd:c19", Class: f.v.Class, Sig: f.v.Sig, Msg: f.v.Msg, Seed: f.c.Seed, Payload: payload}
		path := writeReplay(rf, 100+k)
		k++
		if ok, why := c19CmdReplayOK(a, rf); !ok {
			die(2, "replay file %s does not reproduce: %s", path, why)
		}
		rep.report(f.v.Sig, f.v.Msg, path)
	}
	return map[string]interface{}{"runs": runs, "stats": stats, "faults_fired": faults, "findings": len(founds)}
}

func c19CmdReplayOK(a *artefacts, rf *replayFile) (bool, string) {
	var c c19CmdCase
	if err := json.Unmarshal(rf.Payload, &c); err != nil {
		return false, err.Error()
	}
	var h string
	for i := 0; i < 2; i++ {
		wr := runWorld(a, c.spec())
		if wr.Res == nil {
			return false, fmt.Sprintf("no result: %v", wr.Err)
		}
		v, _ := c19CmdJudge(&c, wr)
		if v.Class != rf.Class {
			return false, fmt.Sprintf("class %q, recorded %q", v.Class, rf.Class)
		}
		if i == 1 && h != wr.Res.LogHash {
			return false, "event-log hash differs between two replays"
		}
		h = wr.Res.LogHash
	}
	return true, ""
}
