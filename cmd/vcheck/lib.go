package main

import (
	"encoding/json"
	"fmt"
	"sort"
	"strings"
	"time"

	"verif/sim/simrt"
)

// libCheck is the generic flow for properties decided by an in-process
// library driver (C19, C12, C14): determinism self-test, seeded exploration
// fanned out over the cores, minimisation, replay verification, evidence.
type libCheck struct {
	Prop         string
	Kind         string
	Level        string
	QuickRuns    uint64
	ThoroughRuns uint64
	PerBatch     uint64
	Rule         string
	Assumptions  []string
	RealStub     map[string]interface{}
	Protect      []string // spec keys the shrinker must not touch
	// Extra runs an additional, command-level workload of the same property; its findings go through rep
	Extra func(a *artefacts, tier string, seed uint64, rep *reporter) map[string]interface{}
}

func (lc *libCheck) run(a *artefacts, tier string, seed uint64) int {
	t0 := time.Now()
	rep := newReporter(lc.Prop)
	total := lc.QuickRuns
	detN := uint64(64)
	budget := 4 * time.Minute
	if tier == "thorough" {
		total = lc.ThoroughRuns
		detN = 1024
		budget = 40 * time.Minute
	}
	deadline := t0.Add(budget)

	// 1. determinism: the same seeds in different processes under different real parallelism
	var ref []string
	for _, gmp := range []int{1, 4, 16} {
		r, err := runBatch(a, &batchReq{Kind: lc.Kind, Tier: tier, Base: seed ^ 0xd37e, From: 0, To: detN, Hashes: true, MaxViolations: 1 << 30, gomaxprocs: gmp}, 10*time.Minute)
		if err != nil {
			die(2, "determinism self-test: %v", err)
		}
		if ref == nil {
			ref = r.Hashes
			continue
		}
		if len(r.Hashes) != len(ref) {
			die(2, "determinism self-test: %d vs %d runs", len(r.Hashes), len(ref))
		}
		for i := range ref {
			if ref[i] != r.Hashes[i] {
				die(2, "determinism self-test failed: run %d of driver %s differs between processes (GOMAXPROCS=%d): %s vs %s — the simulator is missing a seam", i, lc.Kind, gmp, ref[i], r.Hashes[i])
			}
		}
	}

	// 2. exploration
	m, err := runBatches(a, lc.Kind, tier, seed, total, lc.PerBatch, deadline, rep.ff.sigsOf(lc.Prop)...)
	if err != nil {
		die(2, "batch: %v", err)
	}
	// listed known findings: one world each is minimised, replayed and printed as KNOWN-FINDING; they
	// do not use up the violation budget of the exploration
	for i, v := range m.Known {
		min, o := lc.minimise(a, v)
		if o == nil {
			die(2, "known finding of %s (class %s) did not reproduce in a fresh process: simulator not deterministic? spec seed %d", lc.Prop, v.Class, v.Spec.Seed)
		}
		payload, _ := json.Marshal(min)
		rf := &replayFile{Property: lc.Prop, Kind: "lib:" + lc.Kind, Class: o.Class, Sig: o.Sig, Msg: o.Msg, Seed: v.Spec.Seed, LogHash: o.LogHash, Payload: payload}
		path := writeReplay(rf, 50+i)
		if ok, why := lc.replay(a, rf); !ok {
			die(2, "replay file %s does not reproduce: %s", path, why)
		}
		rep.report(o.Sig, o.Msg, path)
	}

	// 3. violations: minimise, write replay, verify replay in a fresh process
	seenSig := map[string]bool{}
	nrep := 0
	for _, v := range m.Violations {
		if seenSig[v.Sig] && nrep >= 1 {
			continue
		}
		if nrep >= 4 {
			break
		}
		seenSig[v.Sig] = true
		min, o := lc.minimise(a, v)
		if o == nil {
			// not reproducible alone: does it need the calls made earlier in the same process (the worlds
			// of its batch that ran before it)?  If the same violation comes back, twice, when that history is
			// run again in a fresh process, it is a violation whose trigger is the history; the replay file
			// names the history (batch base, range), and replay runs it again.
			h := &libHistory{Kind: lc.Kind, Tier: tier, Base: v.Base, From: v.From, To: v.Index + 1, Seed: v.Spec.Seed, Class: v.Class}
			if ok, _ := lc.replayHistory(a, h); !ok {
				die(2, "violation of %s (class %s) did not reproduce in a fresh process, neither alone nor after the worlds that ran before it: simulator not deterministic? spec seed %d", lc.Prop, v.Class, v.Spec.Seed)
			}
			payload, _ := json.Marshal(h)
			sig := v.Sig + "|after-earlier-calls-in-the-process"
			msg := fmt.Sprintf("only after the %d world(s) that ran before it in the same process (the state they leave behind in the library): %s", v.Index-v.From, v.Msg)
			rf := &replayFile{Property: lc.Prop, Kind: "libhist:" + lc.Kind, Class: v.Class, Sig: sig, Msg: msg, Seed: v.Spec.Seed, Payload: payload}
			path := writeReplay(rf, nrep)
			nrep++
			rep.report(sig, msg, path)
			continue
		}
		payload, _ := json.Marshal(min)
		rf := &replayFile{Property: lc.Prop, Kind: "lib:" + lc.Kind, Class: o.Class, Sig: o.Sig, Msg: o.Msg, Seed: v.Spec.Seed, LogHash: o.LogHash, Payload: payload}
		path := writeReplay(rf, nrep)
		nrep++
		// replay must reproduce exactly
		if ok, why := lc.replay(a, rf); !ok {
			die(2, "replay file %s does not reproduce: %s", path, why)
		}
		rep.report(o.Sig, o.Msg, path)
	}

	var extra map[string]interface{}
	if lc.Extra != nil {
		extra = lc.Extra(a, tier, seed, rep)
	}

	// 4. evidence
	states := make([]string, 0, len(m.states))
	for s := range m.states {
		states = append(states, s)
	}
	sort.Strings(states)
	faults := map[string]int{}
	probes := map[string]int{}
	other := map[string]int{}
	for k, v := range m.Counters {
		switch {
		case strings.HasPrefix(k, "fault."):
			faults[k] = v
		case strings.HasPrefix(k, "probe."):
			probes[k] = v
		default:
			other[k] = v
		}
	}
	wall := time.Since(t0).Seconds()
	var samples []interface{}
	for _, s := range m.Samples {
		var x interface{}
		json.Unmarshal(s, &x)
		samples = append(samples, x)
	}
	if len(samples) == 0 {
		samples = append(samples, "no non-trivial sample recorded")
	}
	cov := map[string]interface{}{
		"evaluations":          m.Runs,
		"distinct_nontrivial":  len(m.caseKeys),
		"rule":                 lc.Rule,
		"samples":              samples,
		"states":               len(states),
		"state_measure":        "distinct abstract states, see DESIGN.md for the measure of this property",
		"runs_per_hour":        int(float64(m.Runs) / wall * 3600),
		"seeds_per_hour":       int(float64(m.Runs) / wall * 3600),
		"simulated_time_ns":    m.SimNanos,
		"scheduler_steps":      m.Steps,
		"faults_fired":         faults,
		"probes":               probes,
		"counters":             other,
		"known_finding_worlds": m.KnownHits,
		"determinism_selftest": fmt.Sprintf("%d seeds x 3 processes (GOMAXPROCS 1,4,16): identical event-log hashes", detN),
		"real_vs_stub":         lc.RealStub,
		"tree":                 a.Hash,
	}
	if extra != nil {
		cov["additional_phase"] = extra
	}
	var zero []string
	for k, v := range probes {
		if v == 0 {
			zero = append(zero, k)
		}
	}
	if len(zero) > 0 {
		cov["probes_never_hit"] = zero
	}
	writeEvidence(&evidence{PropertyID: lc.Prop, Tier: tier, Seed: int64(seed & 0x7fffffffffffffff), Level: lc.Level, Coverage: cov,
		Assumptions: lc.Assumptions, WallS: wall, Violations: rep.violations})
	fmt.Printf("%s %s: %d runs, %d distinct non-trivial cases, %d abstract states, %d violation(s), %d known finding(s), %.1fs\n",
		lc.Prop, tier, m.Runs, len(m.caseKeys), len(states), rep.violations, len(rep.known), wall)
	if rep.violations > 0 {
		return 1
	}
	return 0
}

// minimise shrinks a violating spec; returns the minimal spec (with explicit
// decisions) and its outcome, or nil if the violation does not reproduce.
func (lc *libCheck) minimise(a *artefacts, v violation) (*simrt.Spec, *outcome) {
	class := v.Class
	pred := func(d interface{}) (*outcome, bool) {
		var sp simrt.Spec
		if err := fromDoc(d, &sp); err != nil {
			return nil, false
		}
		os, err := runSpecs(a, lc.Kind, []*simrt.Spec{&sp}, false)
		if err != nil || len(os) != 1 {
			return nil, false
		}
		return os[0], os[0].Class == class
	}
	doc := toDoc(v.Spec)
	o0, ok := pred(doc)
	if !ok {
		return nil, nil
	}
	opts := &shrinkOpts{Protect: map[string]bool{"kind": true, "seed": true, "cwd": true, "files": true}, NoDrop: map[string]bool{"driver": true}, Budget: 500}
	for _, k := range lc.Protect {
		opts.Protect[k] = true
	}
	doc, _ = shrinkDoc(doc, opts, func(d interface{}) bool { _, ok := pred(d); return ok })
	// freeze the schedule: explicit decisions of the minimal failing run, then shrink those too
	var sp simrt.Spec
	fromDoc(doc, &sp)
	outs, err := runSpecs(a, lc.Kind, []*simrt.Spec{&sp}, true)
	if err == nil && len(outs) == 1 && outs[0].Result != nil && outs[0].Class == class {
		sp2 := sp
		sp2.Decisions = outs[0].Result.Decisions
		if sp2.Decisions == nil {
			sp2.Decisions = map[string][]int{}
		}
		if _, ok := sp2.Decisions["sched"]; !ok {
			sp2.Decisions["sched"] = []int{}
		}
		d2 := toDoc(&sp2)
		if _, ok := pred(d2); ok {
			opts2 := &shrinkOpts{Protect: map[string]bool{"kind": true, "seed": true, "cwd": true, "driver": true, "files": true, "fs_faults": true}, Budget: 300}
			d2, _ = shrinkDoc(d2, opts2, func(d interface{}) bool { _, ok := pred(d); return ok })
			doc = d2
		}
	}
	var final simrt.Spec
	fromDoc(doc, &final)
	of, ok := pred(doc)
	if !ok {
		return v.Spec, o0
	}
	return &final, of
}

// libHistory: a violation that needs the worlds which ran before it in the same process
type libHistory struct {
	Kind  string `json:"kind"`
	Tier  string `json:"tier"`
	Base  uint64 `json:"base"`
	From  uint64 `json:"from"`
	To    uint64 `json:"to"`
	Seed  uint64 `json:"seed"` // spec seed of the world that must fail
	Class string `json:"class"`
}

func (lc *libCheck) replayHistory(a *artefacts, h *libHistory) (bool, string) {
	for i := 0; i < 2; i++ {
		r, err := runBatch(a, &batchReq{Kind: h.Kind, Tier: h.Tier, Base: h.Base, From: h.From, To: h.To, MaxViolations: 1 << 30}, 20*time.Minute)
		if err != nil {
			return false, err.Error()
		}
		found := false
		for _, v := range append(r.Violations, r.Known...) {
			if v.Spec != nil && v.Spec.Seed == h.Seed && v.Class == h.Class {
				found = true
			}
		}
		if !found {
			return false, fmt.Sprintf("world %d did not end in class %q after its history", h.Seed, h.Class)
		}
	}
	return true, ""
}

func (lc *libCheck) replay(a *artefacts, rf *replayFile) (bool, string) {
	if strings.HasPrefix(rf.Kind, "libhist:") {
		var h libHistory
		if err := json.Unmarshal(rf.Payload, &h); err != nil {
			return false, err.Error()
		}
		return lc.replayHistory(a, &h)
	}
	var sp simrt.Spec
	if err := json.Unmarshal(rf.Payload, &sp); err != nil {
		return false, err.Error()
	}
	for i := 0; i < 2; i++ {
		outs, err := runSpecs(a, lc.Kind, []*simrt.Spec{&sp}, false)
		if err != nil {
			return false, err.Error()
		}
		if outs[0].Class != rf.Class {
			return false, fmt.Sprintf("class %q, recorded %q", outs[0].Class, rf.Class)
		}
		if outs[0].LogHash != rf.LogHash {
			return false, fmt.Sprintf("event-log hash %s, recorded %s", outs[0].LogHash, rf.LogHash)
		}
	}
	return true, ""
}

func (lc *libCheck) replayCmd(a *artefacts, path string) int {
	rf := readReplay(path)
	ok, why := lc.replay(a, rf)
	if ok {
		fmt.Printf("VIOLATION property=%s replay=%s\n  reproduced: %s\n  %s\n", rf.Property, path, rf.Sig, rf.Msg)
		return 1
	}
	fmt.Printf("replay of %s did not reproduce the recorded violation on this tree: %s\n", path, why)
	return 0
}
