package main

import (
	"encoding/json"
	"fmt"
	"os"
	"path/filepath"
	"regexp"
	"time"
)

type evidence struct {
	PropertyID  string                 `json:"property_id"`
	Tier        string                 `json:"tier"`
	Seed        int64                  `json:"seed"`
	Level       string                 `json:"level"`
	Coverage    map[string]interface{} `json:"coverage"`
	Assumptions []string               `json:"assumptions"`
	WallS       float64                `json:"wall_s"`
	Violations  int                    `json:"violations"`
}

// outRoot is /verif for the registered commands; runs against a scratch
// checkout (VERIF_REPO) keep their evidence and replay files out of /verif.
func outRoot() string {
	if os.Getenv("VERIF_REPO") != "" {
		return filepath.Join(os.TempDir(), "vcheck-scratch-out")
	}
	return verifDir
}

func writeEvidence(ev *evidence) {
	os.MkdirAll(filepath.Join(outRoot(), "evidence"), 0o755)
	b, _ := json.MarshalIndent(ev, "", " ")
	p := filepath.Join(outRoot(), "evidence", ev.PropertyID+".json")
	if err := os.WriteFile(p, b, 0o644); err != nil {
		die(2, "write evidence: %v", err)
	}
}

// ---- known findings ----

type finding struct {
	Property string `json:"property"`
	ID       string `json:"id"`
	SigRe    string `json:"sig_re"` // regular expression over the violation signature
	What     string `json:"what"`
}

type findingsFile struct {
	Findings []finding `json:"findings"`
	Fixed    []string  `json:"fixed"`
}

func loadFindings() *findingsFile {
	var ff findingsFile
	b, err := os.ReadFile(filepath.Join(verifDir, "known_findings.json"))
	if err != nil {
		return &ff
	}
	if err := json.Unmarshal(b, &ff); err != nil {
		die(2, "known_findings.json: %v", err)
	}
	return &ff
}

// sigsOf: the signature patterns of the listed findings of one property.
func (ff *findingsFile) sigsOf(prop string) []string {
	var out []string
	for _, f := range ff.Findings {
		if f.Property == prop {
			out = append(out, f.SigRe)
		}
	}
	return out
}

func (ff *findingsFile) match(prop, sig string) *finding {
	for i := range ff.Findings {
		f := &ff.Findings[i]
		if f.Property != prop {
			continue
		}
		re, err := regexp.Compile(f.SigRe)
		if err != nil {
			die(2, "known_findings.json: bad sig_re %q: %v", f.SigRe, err)
		}
		if re.MatchString(sig) {
			return f
		}
	}
	return nil
}

// ---- replay files ----

type replayFile struct {
	Property string          `json:"property"`
	Kind     string          `json:"kind"` // lib:<driver> | cmd:<check>
	Class    string          `json:"class"`
	Sig      string          `json:"sig"`
	Msg      string          `json:"msg"`
	Seed     uint64          `json:"seed"`
	LogHash  string          `json:"log_hash,omitempty"`
	Payload  json.RawMessage `json:"payload"` // the minimised spec(s)
	Note     string          `json:"note,omitempty"`
	Created  string          `json:"created"`
}

func writeReplay(rf *replayFile, n int) string {
	os.MkdirAll(filepath.Join(outRoot(), "replays"), 0o755)
	rf.Created = time.Now().UTC().Format(time.RFC3339)
	p := filepath.Join(outRoot(), "replays", fmt.Sprintf("%s-%d-%d.json", rf.Property, rf.Seed, n))
	b, _ := json.MarshalIndent(rf, "", " ")
	if err := os.WriteFile(p, b, 0o644); err != nil {
		die(2, "write replay: %v", err)
	}
	return p
}

func readReplay(p string) *replayFile {
	b, err := os.ReadFile(p)
	if err != nil {
		die(2, "read replay: %v", err)
	}
	var rf replayFile
	if err := json.Unmarshal(b, &rf); err != nil {
		die(2, "bad replay file: %v", err)
	}
	return &rf
}

// reporter collects the verdict lines of a check.
type reporter struct {
	prop       string
	ff         *findingsFile
	violations int
	known      map[string]bool
	lines      []string
}

func newReporter(prop string) *reporter {
	return &reporter{prop: prop, ff: loadFindings(), known: map[string]bool{}}
}

// report files one confirmed (replayed) violation.
func (r *reporter) report(sig, msg, replayPath string) {
	if f := r.ff.match(r.prop, sig); f != nil {
		if !r.known[f.ID] {
			r.known[f.ID] = true
			fmt.Printf("KNOWN-FINDING: property=%s %s [%s] (replay=%s)\n", r.prop, f.What, f.ID, replayPath)
		}
		return
	}
	r.violations++
	violationsPrinted++
	fmt.Printf("VIOLATION property=%s replay=%s\n", r.prop, replayPath)
	fmt.Printf("  signature: %s\n  %s\n", sig, msg)
}
