package main

import (
	"encoding/json"
	"fmt"
	"path"
	"regexp"
	"sort"
	"strings"
	"sync"
	"time"

	"verif/sim/idlgen"
	"verif/sim/simrt"
)

// C04 (storage- and I/O-fault facet) — the behaviour of the command when the
// IDL set on the simulated disk is damaged by storage-level faults.

type c04Fault struct {
	Kind string `json:"kind"` // lost-file unreadable-dir read-eacces read-eio stat-eio truncated flipped inserted lost-record dup-record include-rewrite include-add
	File string `json:"file"` // simulated path of the damaged file
	Line int    `json:"line,omitempty"`
	At   int    `json:"at,omitempty"`
	Note string `json:"note,omitempty"`
}

type c04Case struct {
	Prog       string            `json:"program"`
	Files      map[string][]byte `json:"files"` // after the damage
	Dirs       []string          `json:"dirs,omitempty"`
	FSFaults   []simrt.FSFault   `json:"fs_faults,omitempty"`
	Cwd        string            `json:"cwd"`
	Main       string            `json:"main"`
	Cfg        config            `json:"config"`
	Faults     []c04Fault        `json:"faults"`
	MustReject string            `json:"must_reject,omitempty"` // reason why the damaged set is certainly invalid ("" = unknown)
	Seed       uint64            `json:"seed"`
	Strategy   string            `json:"strategy,omitempty"`
	Par        int               `json:"parallelism,omitempty"`
	Depth      int               `json:"depth"`              // distance of the damaged file from the main file in the include graph
	Pristine   map[string][]byte `json:"pristine,omitempty"` // the undamaged program (accepted by the fault-free compiler)
	// Session: the damage happens between two invocations of one process: the same command first runs on the
	// undamaged set (into another output directory), then the files are damaged, then the observed invocation runs
	Session bool `json:"session,omitempty"`
}

func (c *c04Case) spec() *simrt.Spec {
	cc := &cmdCase{Prog: &program{Files: c.Files, Cwd: c.Cwd, Main: c.Main}, Cfg: c.Cfg}
	if c.Session && len(c.FSFaults) == 0 && len(c.Pristine) > 0 {
		cc.Prog.Files = c.Pristine
		inv := []string{"thriftgo", "-g", c.Cfg.gArg()}
		if c.Cfg.Rec {
			inv = append(inv, "-r")
		}
		cc.Prelude = [][]string{append(inv, "-o", "/prelude/o", c.Main)}
		cc.PreludeWrite = map[string][]byte{}
		for n, b := range c.Files {
			if pb, ok := c.Pristine[n]; !ok || string(pb) != string(b) {
				cc.PreludeWrite[n] = b
			}
		}
		for n := range c.Pristine {
			if _, ok := c.Files[n]; !ok {
				cc.PreludeRemove = append(cc.PreludeRemove, n)
			}
		}
		sort.Strings(cc.PreludeRemove)
		cc.PreludeMkdir = c.Dirs
		sp := cc.spec(c.Seed)
		sp.Strategy = c.Strategy
		sp.Parallelism = c.Par
		if sp.Parallelism == 0 {
			sp.Parallelism = 4
		}
		sp.StepBudget = 800000
		return sp
	}
	sp := cc.spec(c.Seed)
	sp.Dirs = c.Dirs
	sp.FSFaults = c.FSFaults
	sp.Strategy = c.Strategy
	sp.Parallelism = c.Par
	if sp.Parallelism == 0 {
		sp.Parallelism = 4
	}
	sp.StepBudget = 400000
	return sp
}

// ancestors of file x in the include DAG (files from which x is reachable), including x.
func c04Ancestors(m *idlgen.Program, x int) []int {
	reach := make([]map[int]bool, len(m.Files))
	var dfs func(i int) map[int]bool
	dfs = func(i int) map[int]bool {
		if reach[i] != nil {
			return reach[i]
		}
		r := map[int]bool{i: true}
		reach[i] = r
		for _, j := range m.Files[i].Includes {
			for k := range dfs(j) {
				r[k] = true
			}
		}
		return r
	}
	var out []int
	for i := range m.Files {
		if dfs(i)[x] {
			out = append(out, i)
		}
	}
	return out
}

func c04Depth(m *idlgen.Program, x int) int {
	dist := map[int]int{0: 0}
	q := []int{0}
	for len(q) > 0 {
		i := q[0]
		q = q[1:]
		for _, j := range m.Files[i].Includes {
			if _, ok := dist[j]; !ok {
				dist[j] = dist[i] + 1
				q = append(q, j)
			}
		}
	}
	return dist[x]
}

func c04Gen(seed uint64, idx int, maxFaults int) *c04Case {
	r := simrt.NewRand(seed)
	o := idlgen.Options{MaxFiles: 5, MaxDefs: 7, Rich: idx%4 == 0, Twins: idx%6 == 5}
	m := idlgen.Generate(simrt.NewRand(simrt.Mix(seed, 0xc04)), o)
	c := &c04Case{Prog: fmt.Sprintf("idlgen:%d", seed), Cwd: "/work", Main: "main.thrift", Seed: seed,
		Strategy: []string{"random", "rtb", "pct"}[r.Intn(3)], Par: 1 + r.Intn(16)}
	c.Cfg = config{Backend: []string{"go", "fastgo"}[r.Intn(2)], Rec: r.Chance(3, 4)}
	if c.Cfg.Backend == "go" && r.Chance(1, 3) {
		c.Cfg.Opts = [][]string{{"no_fmt"}, {"template=slim"}, {"with_reflection"}, {"gen_deep_equal=false", "frugal_tag"}}[r.Intn(4)]
	}
	lines := make([][]idlgen.Line, len(m.Files))
	for i, f := range m.Files {
		lines[i] = append([]idlgen.Line(nil), f.Lines...)
	}
	files := map[string][]byte{}
	gone := map[int]bool{}
	nf := 1
	if maxFaults > 1 && r.Chance(1, 3) {
		nf = 1 + r.Intn(maxFaults)
	}
	for k := 0; k < nf; k++ {
		fi := r.Intn(len(m.Files))
		if r.Chance(1, 3) && len(m.Files) > 1 {
			fi = 1 + r.Intn(len(m.Files)-1) // favour included files
		}
		fpath := path.Join("/work", m.Files[fi].Path)
		ft := c04Fault{File: fpath}
		c.Depth = c04Depth(m, fi)
		must := func(s string) {
			if c.MustReject == "" {
				c.MustReject = s
			}
		}
		switch kind := r.Intn(16); kind {
		case 0:
			ft.Kind = "lost-file"
			gone[fi] = true
			must("the file " + m.Files[fi].Path + " is missing")
		case 1:
			ft.Kind = "unreadable-dir"
			gone[fi] = true
			c.Dirs = append(c.Dirs, fpath)
			must("a directory sits where " + m.Files[fi].Path + " should be")
		case 2:
			ft.Kind = "read-eacces"
			c.FSFaults = append(c.FSFaults, simrt.FSFault{Op: "read", Match: fpath, Nth: 0, Kind: "EACCES"})
			must("reading " + m.Files[fi].Path + " fails with EACCES")
		case 3:
			ft.Kind = "read-eio"
			c.FSFaults = append(c.FSFaults, simrt.FSFault{Op: "read", Match: fpath, Nth: 0, Kind: "EIO"})
			must("reading " + m.Files[fi].Path + " fails with EIO")
		case 4:
			ft.Kind = "truncated"
			ft.At = -1 // filled below on the rendered text
		case 5:
			ft.Kind = "flipped"
			ft.At = -1
		case 6:
			ft.Kind = "inserted"
			ft.At = -1
		case 7, 8:
			ft.Kind = "lost-record"
			if len(lines[fi]) == 0 {
				continue
			}
			li := r.Intn(len(lines[fi]))
			l := lines[fi][li]
			ft.Line, ft.Note = li, l.Kind+": "+strings.TrimSpace(l.Text)
			switch l.Kind {
			case "struct-open", "enum-open", "service-open", "close":
				must("a definition lost its " + l.Kind + " record: " + strings.TrimSpace(l.Text))
			case "typedef", "const":
				// is the lost symbol referenced by a record that survives?
				for fj, ls := range lines {
					for lj, o := range ls {
						if fj == fi && lj == li {
							continue
						}
						for _, ref := range o.Refs {
							if ref == fmt.Sprintf("%d:%s", fi, l.Defines) {
								must(fmt.Sprintf("%s %s was lost but %q still refers to it", l.Kind, l.Defines, strings.TrimSpace(o.Text)))
							}
						}
					}
				}
			case "include":
				inc := l.IncRef - 1
				for lj, o := range lines[fi] {
					if lj == li {
						continue
					}
					for _, ref := range o.Refs {
						if strings.HasPrefix(ref, fmt.Sprintf("%d:", inc)) {
							must(fmt.Sprintf("the include of %s was lost but %q still refers to it", m.Files[inc].Path, strings.TrimSpace(o.Text)))
						}
					}
				}
			}
			lines[fi] = append(append([]idlgen.Line(nil), lines[fi][:li]...), lines[fi][li+1:]...)
		case 9, 10:
			ft.Kind = "dup-record"
			if len(lines[fi]) == 0 {
				continue
			}
			li := r.Intn(len(lines[fi]))
			l := lines[fi][li]
			ft.Line, ft.Note = li, l.Kind+": "+strings.TrimSpace(l.Text)
			switch l.Kind {
			case "typedef", "const", "field", "enum-value", "function", "struct-open", "enum-open", "service-open", "close":
				must("duplicated " + l.Kind + " record: " + strings.TrimSpace(l.Text))
			}
			nl := append([]idlgen.Line(nil), lines[fi][:li+1]...)
			nl = append(nl, l)
			lines[fi] = append(nl, lines[fi][li+1:]...)
		case 15:
			ft.Kind = "stat-eio"
			c.FSFaults = append(c.FSFaults, simrt.FSFault{Op: "stat", Match: fpath, Nth: 0, Kind: "EIO"})
			// the search for the file cannot see it: behaves like a missing file unless another
			// candidate path names the same file (the first probe is the only one that fails)
		case 14:
			// misdirected write: the contents of two files of the set are exchanged
			ft.Kind = "swapped-files"
			if len(m.Files) < 2 {
				continue
			}
			fj := r.Intn(len(m.Files))
			if fj == fi {
				fj = (fi + 1) % len(m.Files)
			}
			ft.Note = "contents exchanged with " + m.Files[fj].Path
			lines[fi], lines[fj] = lines[fj], lines[fi]
		case 13:
			// a larger extent written twice: a whole definition (all records from its opening to its
			// closing one) appears a second time -> duplicate global name
			ft.Kind = "dup-block"
			var opens []int
			for li, l := range lines[fi] {
				if l.Kind == "struct-open" || l.Kind == "enum-open" || l.Kind == "service-open" {
					opens = append(opens, li)
				}
			}
			if len(opens) == 0 {
				continue
			}
			st := opens[r.Intn(len(opens))]
			en := st
			for en < len(lines[fi]) && lines[fi][en].Kind != "close" {
				en++
			}
			if en >= len(lines[fi]) {
				continue
			}
			blk := append([]idlgen.Line(nil), lines[fi][st:en+1]...)
			ft.Line, ft.Note = st, lines[fi][st].Kind+": "+strings.TrimSpace(lines[fi][st].Text)
			at := en + 1
			if r.Chance(1, 2) {
				at = len(lines[fi]) // at the end of the file
			}
			nl := append([]idlgen.Line(nil), lines[fi][:at]...)
			nl = append(nl, blk...)
			lines[fi] = append(nl, lines[fi][at:]...)
			must("the whole definition `" + strings.TrimSpace(lines[fi][st].Text) + " ... }` appears twice: duplicate global name")
		case 11:
			ft.Kind = "include-rewrite"
			var incs []int
			for li, l := range lines[fi] {
				if l.Kind == "include" {
					incs = append(incs, li)
				}
			}
			if len(incs) == 0 {
				continue
			}
			li := incs[r.Intn(len(incs))]
			anc := c04Ancestors(m, fi)
			target := anc[r.Intn(len(anc))]
			rel := idlgen.RelPath(path.Dir(m.Files[fi].Path), m.Files[target].Path)
			ft.Line, ft.Note = li, fmt.Sprintf("include rewritten to %q (an ancestor or the file itself)", rel)
			nl := lines[fi][li]
			nl.Text = fmt.Sprintf("include \"%s\"", rel)
			lines[fi] = append([]idlgen.Line(nil), lines[fi]...)
			lines[fi][li] = nl
			must("an include was misdirected to " + m.Files[target].Path + ", which (transitively) includes " + m.Files[fi].Path + ": include cycle")
		default:
			ft.Kind = "include-add"
			anc := c04Ancestors(m, fi)
			target := anc[r.Intn(len(anc))]
			rel := idlgen.RelPath(path.Dir(m.Files[fi].Path), m.Files[target].Path)
			ft.Note = fmt.Sprintf("a record `include %q` appeared (an ancestor or the file itself)", rel)
			nl := []idlgen.Line{{Text: fmt.Sprintf("include \"%s\"", rel), Kind: "include"}}
			lines[fi] = append(nl, lines[fi]...)
			must("a duplicated/misdirected include record points at " + m.Files[target].Path + ", which (transitively) includes " + m.Files[fi].Path + ": include cycle")
		}
		c.Faults = append(c.Faults, ft)
	}
	for i, f := range m.Files {
		if gone[i] {
			continue
		}
		var sb strings.Builder
		for _, l := range lines[i] {
			sb.WriteString(l.Text)
			sb.WriteString("\n")
		}
		files[path.Join("/work", f.Path)] = []byte(sb.String())
	}
	// byte-level damage on the rendered text
	for k := range c.Faults {
		ft := &c.Faults[k]
		b, ok := files[ft.File]
		if !ok || ft.At != -1 {
			continue
		}
		if len(b) == 0 {
			ft.At = 0
			continue
		}
		switch ft.Kind {
		case "truncated":
			ft.At = r.Intn(len(b))
			if r.Chance(1, 3) {
				// the cut falls inside a multi-byte character, if the file has one
				var mid []int
				for i, ch := range b {
					if ch >= 0x80 && ch < 0xc0 {
						mid = append(mid, i)
					}
				}
				if len(mid) > 0 {
					ft.At = mid[r.Intn(len(mid))]
					ft.Note = "inside a multi-byte character"
				}
			}
			files[ft.File] = append([]byte(nil), b[:ft.At]...)
		case "flipped":
			nb := append([]byte(nil), b...)
			n := 1 + r.Intn(3)
			for i := 0; i < n; i++ {
				ft.At = r.Intn(len(nb))
				nb[ft.At] ^= 1 << uint(r.Intn(8))
			}
			files[ft.File] = nb
		case "inserted":
			ft.At = r.Intn(len(b) + 1)
			junk := []string{"{", "}", "\"", "/*", "struct", "\x00", "(", ";;", "include \"", "=", "\xff\xfe"}[r.Intn(11)]
			nb := append([]byte(nil), b[:ft.At]...)
			nb = append(nb, junk...)
			files[ft.File] = append(nb, b[ft.At:]...)
		}
	}
	c.Files = files
	c.Pristine = m.FileMap("/work")
	c.Session = idx%5 == 3 && len(c.FSFaults) == 0
	if len(c.Faults) != 1 {
		// faults do not compose: a second one can undo the first (lose the duplicated record, cut the
		// include that leads to the damaged file, swap the damaged file out of reach); certainty about
		// invalidity is claimed for single faults only, the disjunction clause for every run
		c.MustReject = ""
	}
	return c
}

// pristineSpec: the same command on the undamaged program, no faults.
func (c *c04Case) pristineSpec() *simrt.Spec {
	q := *c
	q.Files, q.Dirs, q.FSFaults = c.Pristine, nil, nil
	return q.spec()
}

type c04Verdict struct {
	Class, Sig, Msg string
	Outcome         string // rejected | accepted
}

func c04Judge(c *c04Case, wr *worldRun) *c04Verdict {
	v := &c04Verdict{}
	kinds := []string{}
	for _, f := range c.Faults {
		kinds = append(kinds, f.Kind)
	}
	ks := strings.Join(kinds, "+")
	bad := func(class, f string, a ...interface{}) *c04Verdict {
		if v.Class == "" {
			v.Class, v.Sig, v.Msg = class, class+":"+ks, fmt.Sprintf(f, a...)
		}
		return v
	}
	if wr.Watchdog {
		return bad("hang", "the command did not end within the wall-clock watchdog")
	}
	res := wr.Res
	if res.ExitHow == "deadlock" || res.ExitHow == "budget" {
		return bad("hang", "the command never ends: %s", res.Verdict)
	}
	all := wr.Stdout + "\n" + wr.Stderr
	for _, mark := range []string{"Recovered from panic", "goroutine ", "fatal error", "panic: "} {
		if strings.Contains(all, mark) {
			bad("go-panic-trace", "the command printed a Go panic / fatal error trace (%q): %s", mark, clip(all, 700))
			// name the function that panicked (first thriftgo frame below the panic), so that a known crash
			// site can be told from a new one
			v.Sig += "@" + panicSite(all)
			return v
		}
	}
	wrote := 0
	for _, a := range res.FSLog {
		if a.Op == "open-w" && a.Err == "" {
			wrote++
		}
	}
	if res.Exit != 0 {
		v.Outcome = "rejected"
		if strings.TrimSpace(all) == "" {
			return bad("no-diagnostic", "exit status %d without any diagnostic", res.Exit)
		}
		if wrote > 0 {
			return bad("output-despite-error", "exit status %d but %d generated file(s) were written", res.Exit, wrote)
		}
		return v
	}
	v.Outcome = "accepted"
	if c.MustReject != "" {
		return bad("invalid-input-accepted", "exit status 0 although %s", c.MustReject)
	}
	// exit 0: every file handed to the file manager must be on the disk
	var names []string
	for _, t := range res.Taps["feed"] {
		var fc fedCall
		json.Unmarshal(t, &fc)
		for _, f := range fc.Files {
			if f.HasName && !f.HasIP {
				names = append(names, string(f.Name))
			}
		}
	}
	if len(names) == 0 {
		return bad("exit0-no-output", "exit status 0 but the backend produced nothing")
	}
	for _, n := range names {
		p := n
		if !path.IsAbs(p) {
			p = path.Join(c.Cwd, p)
		}
		if _, ok := res.Disk[path.Clean(p)]; !ok {
			return bad("exit0-incomplete", "exit status 0 but %s is not on the disk", n)
		}
	}
	return v
}

func c04Check(a *artefacts, tier string, seed uint64, replay string) int {
	t0 := time.Now()
	if replay != "" {
		return c04Replay(a, replay)
	}
	rep := newReporter("C04")
	n, maxFaults := 1100, 1
	budget := 5 * time.Minute
	if tier == "thorough" {
		n, maxFaults, budget = 120000, 3, 45*time.Minute
	}
	deadline := t0.Add(budget)
	saved := realWallLimit
	realWallLimit = 25 * time.Second
	defer func() { realWallLimit = saved }()
	var mu sync.Mutex
	type found struct {
		c *c04Case
		v *c04Verdict
	}
	var founds []*found
	stats := map[string]int{}
	faults := map[string]int{}
	cells := map[string]bool{}
	distinct := map[string]bool{}
	var samples []interface{}
	runs := 0
	var trouble error
	parallelMap(n, func(i int) {
		if time.Now().After(deadline) {
			mu.Lock()
			stats["cases.skipped-deadline"]++
			mu.Unlock()
			return
		}
		c := c04Gen(simrt.Mix(seed, uint64(i)), i, maxFaults)
		if len(c.Faults) == 0 {
			mu.Lock()
			stats["cases.no-fault-applicable"]++
			mu.Unlock()
			return
		}
		// the undamaged program must be accepted by the fault-free compiler (a crash on a valid
		// program is outside this property: discarded and counted)
		bw := runWorld(a, c.pristineSpec())
		mu.Lock()
		runs++
		mu.Unlock()
		if !accepted(bw) {
			mu.Lock()
			stats["cases.discarded-pristine-program-not-accepted"]++
			mu.Unlock()
			return
		}
		wr := runWorld(a, c.spec())
		mu.Lock()
		runs++
		mu.Unlock()
		if wr.Res == nil && !wr.Watchdog {
			mu.Lock()
			if trouble == nil {
				trouble = fmt.Errorf("case %d: %v", i, wr.Err)
			}
			mu.Unlock()
			return
		}
		v := c04Judge(c, wr)
		mu.Lock()
		defer mu.Unlock()
		stats["cases.judged"]++
		if c.Session {
			stats["cases.damage-between-two-invocations-of-one-process"]++
		}
		stats["outcome."+v.Outcome]++
		if c.MustReject != "" {
			stats["cases.must-reject"]++
		}
		for _, f := range c.Faults {
			faults["storage."+f.Kind]++
			rk := "-"
			if i := strings.Index(f.Note, ":"); i > 0 && (f.Kind == "lost-record" || f.Kind == "dup-record" || f.Kind == "dup-block") {
				rk = f.Note[:i]
			}
			cells[fmt.Sprintf("%s/%s/depth%d/%s", f.Kind, rk, c.Depth, c.Cfg.Backend)] = true
		}
		if wr.Res != nil {
			for k, nn := range wr.Res.Counters {
				if strings.HasPrefix(k, "fault.fs.") {
					faults[k] += nn
				}
			}
		}
		distinct[fmt.Sprintf("%d|%v|%s", c.Seed, c.Faults, c.Cfg)] = true
		if len(samples) < 3 {
			samples = append(samples, map[string]interface{}{"argv": c.spec().Args, "faults": c.Faults, "must_reject": c.MustReject, "outcome": v.Outcome, "files": len(c.Files)})
		}
		if v.Class != "" {
			founds = append(founds, &found{c, v})
		}
	})
	if trouble != nil {
		die(2, "simulator trouble: %v", trouble)
	}
	sort.SliceStable(founds, func(i, j int) bool { return len(founds[i].c.Faults) < len(founds[j].c.Faults) })
	seen := map[string]bool{}
	nrep := 0
	for _, f := range founds {
		if seen[f.v.Sig] || nrep >= 8 {
			continue
		}
		seen[f.v.Sig] = true
		if f.v.Class == "hang" {
			// a watchdog hit is a violation only if two replays hit it as well
			hits := 0
			for k := 0; k < 2; k++ {
				if w2 := runWorld(a, f.c.spec()); w2.Watchdog || (w2.Res != nil && (w2.Res.ExitHow == "deadlock" || w2.Res.ExitHow == "budget")) {
					hits++
				}
			}
			if hits < 2 {
				die(2, "a run hit the watchdog once but not on replay (machine load?): case seed %d", f.c.Seed)
			}
		}
		payload, _ := json.Marshal(f.c)
		rf := &replayFile{Property: "C04", Kind: "cmd:c04", Class: f.v.Class, Sig: f.v.Sig, Msg: f.v.Msg, Seed: f.c.Seed, Payload: payload}
		p := writeReplay(rf, nrep)
		nrep++
		if ok, why := c04ReplayOK(a, rf); !ok {
			die(2, "replay file %s does not reproduce: %s", p, why)
		}
		rep.report(f.v.Sig, f.v.Msg+fmt.Sprintf(" [faults: %v]", f.c.Faults), p)
	}
	wall := time.Since(t0).Seconds()
	if len(samples) == 0 {
		samples = append(samples, "none")
	}
	var cellList []string
	for c := range cells {
		cellList = append(cellList, c)
	}
	sort.Strings(cellList)
	cov := map[string]interface{}{
		"evaluations":         runs,
		"distinct_nontrivial": len(distinct),
		"rule":                "a case = a generated accepted multi-file program with 1 (quick) or 1..3 (thorough) storage-level faults applied to the main file or any transitively included file, run once under the real main(); non-trivial = at least one fault was applied; distinct by (program, fault list, configuration)",
		"samples":             samples,
		"cases":               stats,
		"faults_fired":        faults,
		"cells_hit":           len(cellList),
		"cell_measure":        "(fault kind, record kind, depth of the damaged file in the include graph, backend)",
		"cells":               cellList,
		"runs_per_hour":       int(float64(runs) / wall * 3600),
		"simulated_time_ns":   0,
		"real_vs_stub": map[string]interface{}{
			"real": []string{"main.main", "sdk.InvokeThriftgo", "args", "parser (incl. include search and cycle detection)", "semantic checker and resolver", "backends", "persist"},
			"stub": []string{"disk (lost / unreadable / truncated / corrupted / duplicated / misdirected records and files)", "argv, env, exit", "goroutine scheduling"},
		},
		"tree": a.Hash,
	}
	writeEvidence(&evidence{PropertyID: "C04", Tier: tier, Seed: int64(seed & 0x7fffffffffffffff), Level: "fault_enumeration", Coverage: cov,
		Assumptions: []string{
			"only the storage- and I/O-fault facet is decided; the catalogue of semantic rule-breaking edits is an input space and is not decided by this check",
			"must-reject is asserted only where invalidity is certain from the generator's model (lost/unreadable file, duplicated definition/field/enum-value/function record, lost definition record that a surviving record references, include cycle); otherwise only the disjunction (rejected cleanly or accepted completely) is asserted",
			"a clean batch is evidence, not proof",
		}, WallS: wall, Violations: rep.violations})
	fmt.Printf("C04 %s: %d runs, %d must-reject, outcomes rejected=%d accepted=%d, %d cells, %d finding(s), %d violation(s), %d known finding(s), %.1fs\n",
		tier, runs, stats["cases.must-reject"], stats["outcome.rejected"], stats["outcome.accepted"], len(cellList), len(founds), rep.violations, len(rep.known), wall)
	if rep.violations > 0 {
		return 1
	}
	return 0
}

func c04ReplayOK(a *artefacts, rf *replayFile) (bool, string) {
	var c c04Case
	if err := json.Unmarshal(rf.Payload, &c); err != nil {
		return false, err.Error()
	}
	saved := realWallLimit
	realWallLimit = 25 * time.Second
	defer func() { realWallLimit = saved }()
	var h string
	for i := 0; i < 2; i++ {
		wr := runWorld(a, c.spec())
		if wr.Res == nil && !wr.Watchdog {
			return false, fmt.Sprintf("no result: %v", wr.Err)
		}
		v := c04Judge(&c, wr)
		if v.Class != rf.Class {
			return false, fmt.Sprintf("class %q, recorded %q", v.Class, rf.Class)
		}
		if wr.Res != nil {
			if i == 1 && wr.Res.LogHash != h {
				return false, "event-log hash differs between two replays"
			}
			h = wr.Res.LogHash
		}
	}
	return true, ""
}

func c04Replay(a *artefacts, p string) int {
	rf := readReplay(p)
	{
		var c c04Case
		if json.Unmarshal(rf.Payload, &c) == nil {
			if wr := runWorld(a, c.spec()); wr.Res != nil || wr.Watchdog {
				fmt.Printf("signature on this tree: %s\n", c04Judge(&c, wr).Sig)
			}
		}
	}
	ok, why := c04ReplayOK(a, rf)
	if ok {
		fmt.Printf("VIOLATION property=C04 replay=%s\n  reproduced: %s\n  %s\n", p, rf.Sig, rf.Msg)
		return 1
	}
	fmt.Printf("replay of %s did not reproduce the recorded violation on this tree: %s\n", p, why)
	return 0
}

var panicFrameRe = regexp.MustCompile(`github\.com/cloudwego/thriftgo/([A-Za-z0-9_/]+)\.(\(\*?[A-Za-z0-9_]+\)\.)?([A-Za-z0-9_]+)`)

// panicSite returns "pkg.Func" of the first thriftgo frame after the runtime's panic frame.
func panicSite(out string) string {
	i := strings.LastIndex(out, "\npanic(")
	if i < 0 {
		i = 0
	}
	for _, m := range panicFrameRe.FindAllStringSubmatch(out[i:], -1) {
		if strings.HasPrefix(m[1], "internal/verifsim") || m[3] == "handlePanic" || m[3] == "func1" {
			continue
		}
		if t := strings.Trim(m[2], "().*"); t != "" {
			return m[1] + "." + t + "." + m[3]
		}
		return m[1] + "." + m[3]
	}
	return "unknown"
}
