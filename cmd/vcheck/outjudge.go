package main

import (
	"encoding/json"
	"fmt"
	"go/format"
	"path/filepath"
	"strings"
	"unicode/utf8"

	"verif/sim/c12model"
	"verif/sim/simrt"
)

// persistTap is the response handed to Generator.Persist, as tapped.
type persistTap struct {
	Nil      bool            `json:"nil"`
	HasError bool            `json:"has_error"`
	Error    []byte          `json:"error"`
	Files    []simrt.FedFile `json:"files"`
}

func persistTaps(res *simrt.Result) []*persistTap {
	var out []*persistTap
	for _, t := range res.Taps["persist"] {
		var pt persistTap
		json.Unmarshal(t, &pt)
		out = append(out, &pt)
	}
	return out
}

func feedGroups(res *simrt.Result) [][]fedCall {
	var groups [][]fedCall
	for _, t := range res.Taps["feed"] {
		var fc fedCall
		json.Unmarshal(t, &fc)
		if fc.Src == "thriftgo" || len(groups) == 0 {
			groups = append(groups, nil)
		}
		groups[len(groups)-1] = append(groups[len(groups)-1], fc)
	}
	return groups
}

// judgeOutput checks, for one target language of a run that exited 0, (1) that
// the response handed to the persist phase is what the reference model assembles
// from the tapped submissions, exactly, and (2) that every file of that response
// is on the disk with its own content, post-processed (go/format for .go files
// unless no_fmt; paths in `overwritten` are skipped).  judged=false: the history is outside what the model defines.
func judgeOutput(cwd string, noFmt bool, res *simrt.Result, feeds []fedCall, pt *persistTap, overwritten map[string]bool) (class, sig, msg string, judged bool) {
	work := &c12model.Work{}
	for _, fc := range feeds {
		fd := c12model.Feed{Src: fc.Src}
		for _, f := range fc.Files {
			it := c12model.Item{Content: string(f.Content)}
			if f.HasName {
				it.Name = string(f.Name)
				if !utf8.ValidString(it.Name) {
					return "", "", "", false
				}
			}
			if f.HasIP {
				it.IP, it.IPSet = string(f.IP), true
			}
			fd.Items = append(fd.Items, it)
		}
		work.Feeds = append(work.Feeds, fd)
	}
	pre := c12model.Judge(work, nil, nil)
	if pre.Undefined != "" || pre.FeedErrAt >= 0 {
		return "", "", "", false
	}
	if pt == nil || pt.Nil {
		return "exit0-incomplete", "exit0-incomplete:no-persist", "thriftgo exited with status 0 but the persist phase was never reached for this language", true
	}
	if pt.HasError {
		return "exit0-incomplete", "exit0-incomplete:error-response", fmt.Sprintf("thriftgo exited with status 0 although generation ended in an error response: %s", clip(string(pt.Error), 200)), true
	}
	rfs := []c12model.RespFile{}
	for _, f := range pt.Files {
		rfs = append(rfs, c12model.RespFile{Name: string(f.Name), Content: string(f.Content)})
	}
	jv := c12model.Judge(work, rfs, nil)
	if jv.Class != "" {
		return "assembly:" + jv.Class, "assembly:" + jv.Sig, "the assembled output is not what was handed in: " + jv.Msg, true
	}
	for _, f := range pt.Files {
		p := string(f.Name)
		if !filepath.IsAbs(p) {
			p = filepath.Join(cwd, p)
		}
		p = filepath.Clean(p)
		if overwritten[p] {
			continue // a later target language writes the same path: the disk holds that one
		}
		got, ok := res.Disk[p]
		if !ok {
			return "exit0-incomplete", "exit0-incomplete:file-missing", fmt.Sprintf("thriftgo exited with status 0 but %s is not on the disk", p), true
		}
		want := string(f.Content)
		// the post-processed content: gofmt's rendering for .go files that gofmt accepts (unless
		// no_fmt), the content itself otherwise - not "either of the two"
		if !noFmt && strings.HasSuffix(p, ".go") {
			if ff, err := format.Source([]byte(want)); err == nil {
				if string(ff) == string(got) {
					continue
				}
				if string(got) == want {
					return "persist:wrong-content", "persist:not-formatted", fmt.Sprintf("%s was written as handed in (%d bytes) although gofmt accepts it and no_fmt is not set: the file was not post-processed", p, len(got)), true
				}
				return "persist:wrong-content", "persist:wrong-content", fmt.Sprintf("%s does not hold the (post-processed) content of its own entry: %d bytes on disk, %d bytes handed in", p, len(got), len(want)), true
			}
		}
		if string(got) == want {
			continue
		}
		return "persist:wrong-content", "persist:wrong-content", fmt.Sprintf("%s does not hold the (post-processed) content of its own entry: %d bytes on disk, %d bytes handed in", p, len(got), len(want)), true
	}
	return "", "", "", true
}
