package main

import (
	"encoding/json"
	"fmt"
	"os"
	"path/filepath"
	"sort"
	"strings"
	"sync"
	"time"

	"verif/sim/idlgen"
	"verif/sim/simrt"
)

// C11 — plugins see the compiler's AST and options; answers are honoured.
// The real main() runs in thriftgo-sim with 1..3 simulated plugin processes
// whose behaviour (and faults) is scripted from the seed.

type c11Plugin struct {
	Name    string                 `json:"name"`
	ByPath  bool                   `json:"by_path,omitempty"` // -p name=/abs/path instead of PATH lookup
	Opts    string                 `json:"opts,omitempty"`
	Script  map[string]interface{} `json:"script"`
	Version string                 `json:"version,omitempty"`
	Alt     string                 `json:"alt,omitempty"` // another executable under the same plugin name (-p x=/plug/opt/x -p x=/plug/opt/x-other)
	Missing bool                   `json:"missing,omitempty"`
	Kind    string                 `json:"kind"` // what the script is meant to be (healthy, error, exit, garbled, slow, ...)
}

type c11Case struct {
	Prog     string            `json:"program"`
	Files    map[string][]byte `json:"files"`
	Cwd      string            `json:"cwd"`
	Main     string            `json:"main"`
	Cfg      config            `json:"config"`
	Second   *config           `json:"second,omitempty"`
	Plugins  []c11Plugin       `json:"plugins"`
	Limit    string            `json:"limit,omitempty"` // --plugin-time-limit ("" = default 1m)
	Quiet    bool              `json:"quiet,omitempty"`
	Debug    bool              `json:"debug,omitempty"`  // THRIFTGO_DEBUG=1 in the environment (profiles written at the end of main)
	NoOut    bool              `json:"no_out,omitempty"` // no -o on the command line: every language writes to ./gen-<language>
	Compress bool              `json:"compress,omitempty"`
	Strategy string            `json:"strategy,omitempty"`
	Par      int               `json:"parallelism,omitempty"`
	MapMode  string            `json:"map_mode,omitempty"`
	Seed     uint64            `json:"seed"`
	// Prelude: earlier invocations in the same process (SDK style), each with its own plugins and limit
	Prelude []c11Prelude `json:"prelude,omitempty"`
	// SdkPlug: the invocations of this world are sdk.InvokeThriftgo calls of a host program that hands in an
	// in-process (SDK) plugin with parameters of its own; it must be handed exactly those, every time
	SdkPlug bool `json:"sdk_plugin,omitempty"`
}

type c11Prelude struct {
	Cfg     config      `json:"config"`
	Plugins []c11Plugin `json:"plugins"`
	Limit   string      `json:"limit,omitempty"`
}

func (c *c11Case) path(p *c11Plugin) string {
	if p.Alt != "" {
		return "/plug/opt/" + p.Name + p.Alt
	}
	if p.ByPath {
		return "/plug/opt/" + p.Name
	}
	return "/plug/bin/thrift-gen-" + p.Name
}

func (c *c11Case) limit() time.Duration {
	if c.Limit == "" {
		return time.Minute
	}
	d, err := time.ParseDuration(c.Limit)
	if err != nil {
		return time.Minute
	}
	return d
}

func (c *c11Case) spec() *simrt.Spec {
	cc := &cmdCase{Prog: &program{Files: c.Files, Cwd: c.Cwd, Main: c.Main}, Cfg: c.Cfg, Second: c.Second, Env: map[string]string{}}
	if c.Compress {
		cc.Env["THRIFTGO_PLUGIN_COMPRESS_INCLUDE"] = "1"
	}
	if c.Debug {
		cc.Env["THRIFTGO_DEBUG"] = "1"
	}
	for i := range c.Plugins {
		p := &c.Plugins[i]
		ps := plugSpec{Name: p.Name, Opts: p.Opts, Script: p.Script, Version: p.Version, Missing: p.Missing}
		if p.ByPath || p.Alt != "" {
			ps.Path = c.path(p)
		}
		cc.Plugins = append(cc.Plugins, ps)
	}
	if c.Limit != "" {
		cc.Extra = append(cc.Extra, "--plugin-time-limit", c.Limit)
	}
	if c.Quiet {
		cc.Extra = append(cc.Extra, "-q")
	}
	// earlier invocations: argv of each, their plugin programs join the world
	type extra struct {
		path    string
		script  interface{}
		version string
	}
	var extras []extra
	for i, pre := range c.Prelude {
		pc := &cmdCase{Prog: cc.Prog, Cfg: pre.Cfg, OutDir: fmt.Sprintf("/prelude/out%d", i)}
		for k := range pre.Plugins {
			p := &pre.Plugins[k]
			ps := plugSpec{Name: p.Name, Opts: p.Opts, Script: p.Script, Version: p.Version, Missing: p.Missing}
			if p.ByPath {
				ps.Path = c.path(p)
			}
			pc.Plugins = append(pc.Plugins, ps)
			if !p.Missing {
				extras = append(extras, extra{c.path(p), p.Script, p.Version})
			}
		}
		if pre.Limit != "" {
			pc.Extra = append(pc.Extra, "--plugin-time-limit", pre.Limit)
		}
		cc.Prelude = append(cc.Prelude, pc.spec(0).Args)
	}
	if c.SdkPlug {
		cc.SdkPlugin = map[string]interface{}{"name": "hostplug", "params": []string{"sdk_mode=strict", "sdk_level=2"}}
	}
	sp := cc.spec(c.Seed)
	if c.NoOut {
		var args []string
		for i := 0; i < len(sp.Args); i++ {
			if sp.Args[i] == "-o" && i+1 < len(sp.Args) && sp.Args[i+1] == "/work/out" {
				i++
				continue
			}
			args = append(args, sp.Args[i])
		}
		sp.Args = args
	}
	for _, e := range extras {
		b, _ := json.Marshal(e.script)
		sp.Programs[e.path] = b
		if e.version != "" {
			sp.BuildInfo[e.path] = e.version
		}
	}
	sp.Strategy = c.Strategy
	sp.Parallelism = c.Par
	if sp.Parallelism == 0 {
		sp.Parallelism = 4
	}
	sp.MapMode = c.MapMode
	sp.StepBudget = 400000
	return sp
}

// independent split of "-g lang:opts" / "-p name:opts" option text
func splitParams(opts string) []string {
	if opts == "" {
		return nil
	}
	var out []string
	for _, a := range strings.Split(opts, ",") {
		out = append(out, a)
	}
	return out
}

func normParams(ps []string) []string {
	var out []string
	for _, p := range ps {
		out = append(out, strings.TrimSuffix(p, "="))
	}
	return out
}

func c11GenPlugin(r *simrt.Rand, idx int, limit time.Duration, backendFiles []string) c11Plugin {
	p := c11Plugin{Name: fmt.Sprintf("p%d", idx), ByPath: r.Chance(1, 2), Version: []string{"v0.4.2", "v0.4.1", "v0.5.0", "v1.0.0", "(devel)", "", "none", "v0.4.2-0.20240101000000-abcdef123456", "v0.4.10", "v0.10.0", "v0.3.99"}[r.Intn(11)]}
	p.Opts = []string{"", "k=v", "a=1,b,c=x=y", "flag", "path=/x/y:z,q", "k=v,,e="}[r.Intn(6)]
	sc := map[string]interface{}{"decode": true, "out_prefix": "$OUT"}
	nonce := func(s string) string { return fmt.Sprintf("%s<%d.%d>", s, idx, r.Intn(100000)) }
	healthyBody := func() {
		var files []map[string]interface{}
		nf := r.Intn(4)
		for i := 0; i < nf; i++ {
			name := []string{fmt.Sprintf("plug%d/notes_%d.txt", idx, i), fmt.Sprintf("plug%d/extra_%d.go", idx, i), fmt.Sprintf("shared/common_%d.txt", i)}[r.Intn(3)]
			body := nonce("head") + "\n"
			if strings.HasSuffix(name, ".go") {
				body = fmt.Sprintf("package plug%d\n\n// %s\n// @@thriftgo_insertion_point(hook)\nvar X%d = %d\n// @@thriftgo_insertion_point(tail)\n", idx, nonce("c"), i, r.Intn(1000))
			} else {
				body += "@@thriftgo_insertion_point(hook)\n" + nonce("mid") + "\n@@thriftgo_insertion_point(tail)@@thriftgo_insertion_point(hook)\n"
			}
			files = append(files, map[string]interface{}{"name": name, "content": body})
			np := r.Intn(3)
			for k := 0; k < np; k++ {
				pt := []string{"hook", "tail", "absent"}[r.Intn(3)]
				files = append(files, map[string]interface{}{"ip": pt, "content": "// " + nonce("patch") + "\n"})
			}
		}
		// a .go file that is not parseable Go (a template fragment): the formatter cannot touch it and it
		// must be written as handed in
		if r.Chance(1, 5) {
			files = append(files, map[string]interface{}{"name": fmt.Sprintf("plug%d/handler_tpl_%d.go", idx, nf), "content": "package plug\n\nfunc {{.Name}}(ctx context.Context) {\n\t// " + nonce("tpl") + "\n}\n"})
		}
		// a named patch (and a following unnamed one) for a file the backend generated
		if len(backendFiles) > 0 && r.Chance(1, 2) {
			bf := backendFiles[r.Intn(len(backendFiles))]
			pt := []string{"bof", "eof", "eof"}[r.Intn(3)]
			files = append(files, map[string]interface{}{"name": bf, "ip": pt, "content": "// " + nonce("bpatch") + "\n", "abs": true})
			if r.Chance(1, 2) {
				files = append(files, map[string]interface{}{"ip": "eof", "content": "// " + nonce("bpatch2") + "\n"})
			}
		}
		sc["files"] = files
		nw := r.Intn(3)
		var ws []string
		for i := 0; i < nw; i++ {
			ws = append(ws, nonce("warning"))
		}
		if nw > 0 {
			sc["warnings"] = ws
		}
		if r.Chance(1, 4) {
			sc["stderr"] = nonce("stderr-text") + "\n"
		}
		if r.Chance(1, 3) {
			sc["chunks"] = 1 + r.Intn(5)
		}
	}
	L := int64(limit)
	switch c := r.Intn(100); {
	case c < 40:
		p.Kind = "healthy"
		healthyBody()
		if L > 0 && r.Chance(1, 2) {
			// healthy, but it takes a good part of the time limit: the limit is per plugin run, so
			// several such plugins in a row are all fine although together they take longer than the limit
			sc[[]string{"delay_before_ns", "delay_mid_ns", "delay_after_ns"}[r.Intn(3)]] = L/2 + int64(r.Intn(int(L/2-L/16)))
		}
	case c < 47:
		p.Kind = "healthy-stdin-ignored"
		healthyBody()
		sc["read_stdin"] = 0
		sc["decode"] = false
		sc["out_prefix"] = ""
	case c < 55:
		p.Kind = "error"
		healthyBody()
		sc["error"] = nonce("plugin says no")
	case c < 67:
		p.Kind = "exit"
		healthyBody()
		sc["exit"] = 1 + r.Intn(255)
		switch r.Intn(5) {
		case 4:
			// not an exit of its own: somebody else kills the process (the OOM killer of a crowded build
			// container) before it reads, after it read, or after it answered; sometimes only the first time
			p.Kind = "died"
			delete(sc, "exit")
			sc["die_by_signal"] = []string{"before", "mid", "after"}[r.Intn(3)]
			sc["die_once"] = r.Chance(1, 2)
		case 0:
			sc["read_stdin"] = 0
			sc["decode"] = false
			sc["no_response"] = true
		case 1:
			sc["read_stdin"] = 1 + r.Intn(500)
			sc["decode"] = false
			sc["no_response"] = true
		case 2:
			sc["exit_after"] = r.Intn(40)
		}
	case c < 82:
		p.Kind = "garbled"
		healthyBody()
		sc["mangle"] = []string{"truncate", "truncate", "flip", "random", "empty", "append"}[r.Intn(6)]
		sc["mangle_at"] = r.Intn(4000)
		sc["mangle_seed"] = r.Intn(1 << 30)
	case c < 97:
		p.Kind = "slow"
		healthyBody()
		if r.Chance(1, 3) {
			sc["ignore_sigint"] = true // a stubborn plugin: only a real kill ends it
		}
		where := []string{"delay_before_ns", "delay_mid_ns", "delay_after_ns"}[r.Intn(3)]
		if L > 0 {
			eps := int64(time.Millisecond) * int64(1+r.Intn(20))
			switch r.Intn(4) {
			case 0:
				sc[where] = L - eps
				p.Kind = "slow-within-limit"
			case 1:
				sc[where] = L + eps
			case 2:
				sc[where] = 20 * L
			default:
				sc["hang"] = []string{"before", "mid", "after"}[r.Intn(3)]
			}
		} else {
			sc[where] = int64(10 * time.Hour)
			p.Kind = "slow-no-limit"
		}
	default:
		if r.Chance(1, 2) {
			p.Kind = "orphan-first"
			healthyBody()
			fs, _ := sc["files"].([]map[string]interface{})
			sc["files"] = append([]map[string]interface{}{{"ip": "hook", "content": "// " + nonce("orphan") + "\n"}}, fs...)
		} else {
			p.Kind = "missing"
			p.Missing = true
		}
	}
	p.Script = sc
	return p
}

// c11Verdict is what the oracle says about one run.
type c11Verdict struct {
	Class  string
	Sig    string
	Msg    string
	Trivia map[string]int
}

func noteStr(n map[string]json.RawMessage, k string) string {
	var s string
	json.Unmarshal(n[k], &s)
	return s
}

func noteStrs(n map[string]json.RawMessage, k string) []string {
	var s []string
	json.Unmarshal(n[k], &s)
	return s
}

type fedFile = simrt.FedFile

type fedCall struct {
	Src   string    `json:"src"`
	Files []fedFile `json:"files"`
}

func stripWS(s string) string {
	return strings.Map(func(r rune) rune {
		if r == ' ' || r == '\t' || r == '\n' || r == '\r' {
			return -1
		}
		return r
	}, s)
}

// c11Judge applies the five clauses of DESIGN.md 5.3 to one run.
func c11Judge(c *c11Case, wr *worldRun) *c11Verdict {
	v := &c11Verdict{Trivia: map[string]int{}}
	bad := func(class, sig, f string, a ...interface{}) *c11Verdict {
		if v.Class == "" {
			v.Class, v.Sig, v.Msg = class, sig, fmt.Sprintf(f, a...)
		}
		return v
	}
	res := wr.Res
	if res.ExitHow == "deadlock" || res.ExitHow == "budget" {
		return bad("hang", "hang", "thriftgo never ends: %s", res.Verdict)
	}
	exit := res.Exit
	L := int64(c.limit())
	langs := []config{c.Cfg}
	if c.Second != nil {
		langs = append(langs, *c.Second)
	}
	byPath := map[string]*c11Plugin{}
	for i := range c.Plugins {
		byPath[c.path(&c.Plugins[i])] = &c.Plugins[i]
	}
	var taps []string
	for _, t := range res.Taps["plugin.request"] {
		var s string
		json.Unmarshal(t, &s)
		taps = append(taps, s)
	}
	astOf := func(d string) string {
		if i := strings.Index(d, ",AST:"); i >= 0 {
			return d[i:]
		}
		return d
	}

	// ---- clause 1 for the host's in-process plugin: it is handed its own parameters, and they stay its own ----
	for _, t := range res.Taps["sdk.invoke"] {
		var si struct {
			Call       int      `json:"call"`
			Language   string   `json:"language"`
			Seen       []string `json:"seen"`
			OwnNow     []string `json:"own_now"`
			Configured []string `json:"configured"`
		}
		if json.Unmarshal(t, &si) != nil {
			continue
		}
		v.Trivia["sdk-plugin-calls-judged"]++
		if strings.Join(si.Seen, "\x00") != strings.Join(si.Configured, "\x00") {
			return bad("plugin-parameters", "plugin-parameters:sdk-plugin", "the host's in-process plugin is configured with %q but the request of its call %d (language %s) carried %q", si.Configured, si.Call, si.Language, si.Seen)
		}
		if strings.Join(si.OwnNow, "\x00") != strings.Join(si.Configured, "\x00") {
			return bad("plugin-parameters", "plugin-parameters:sdk-plugin-own-list-changed", "the parameter list the host's in-process plugin owns was %q and is %q at its call %d", si.Configured, si.OwnNow, si.Call)
		}
	}

	// ---- clause 1: request fidelity ----
	// one tap per Execute call; a call may start its executable more than once (a retry): consecutive
	// executions of one path share the call's tap while there are more executions than calls, and every
	// one of them must be sent the whole request
	if len(res.Procs) > len(taps) && len(taps) > 0 {
		surplus := len(res.Procs) - len(taps)
		var ext []string
		t := 0
		for i, pr := range res.Procs {
			if i > 0 && surplus > 0 && pr.Path == res.Procs[i-1].Path && t > 0 {
				ext = append(ext, taps[t-1])
				surplus--
				continue
			}
			if t >= len(taps) {
				ext = nil
				break
			}
			ext = append(ext, taps[t])
			t++
		}
		if len(ext) == len(res.Procs) {
			taps = ext
			v.Trivia["executions-beyond-calls"]++
		}
	}
	if len(taps) == len(res.Procs) {
		for i, pr := range res.Procs {
			pl := byPath[pr.Path]
			if pl == nil {
				continue
			}
			if i > 0 && astOf(taps[i]) != astOf(taps[0]) {
				return bad("ast-changed-between-plugins", "ast-changed-between-plugins", "the AST handed to plugin call %d differs from the one handed to the first call (a previous call did not restore it)", i)
			}
			if e := noteStr(pr.Notes, "req.err"); e != "" {
				return bad("request-undecodable", "request-undecodable", "plugin %s could not decode its request: %s", pl.Name, e)
			}
			if e := noteStr(pr.Notes, "req.panic"); e != "" {
				return bad("request-undecodable", "request-undecodable:panic", "decoding the request in plugin %s panicked: %s", pl.Name, e)
			}
			dump := noteStr(pr.Notes, "req.dump")
			if dump == "" {
				continue // the script did not decode (stdin ignored, killed before reading, ...)
			}
			v.Trivia["requests-compared"]++
			if dump != taps[i] {
				j := 0
				for j < len(dump) && j < len(taps[i]) && dump[j] == taps[i][j] {
					j++
				}
				lo := j - 120
				if lo < 0 {
					lo = 0
				}
				cut := func(s string) string {
					hi := j + 80
					if hi > len(s) {
						hi = len(s)
					}
					if lo > len(s) {
						return ""
					}
					return s[lo:hi]
				}
				sig := "request-differs"
				if strings.Contains(cut(dump), "THRIFGO_REF:") || strings.Contains(cut(taps[i]), "THRIFGO_REF:") {
					sig = "request-differs:include-stub"
				}
				return bad("request-differs", sig, "the request plugin %s decoded differs from the one the compiler built, at byte %d of the canonical dump: decoded …%s… built …%s…", pl.Name, j, cut(dump), cut(taps[i]))
			}
			// fields against the command line
			lang := noteStr(pr.Notes, "req.language")
			ok := false
			for _, l := range langs {
				if l.Backend == lang {
					ok = true
					want := normParams(splitParams(strings.Join(l.Opts, ",")))
					got := normParams(noteStrs(pr.Notes, "req.generator_parameters"))
					if strings.Join(want, "\x00") != strings.Join(got, "\x00") {
						return bad("generator-parameters", "generator-parameters", "plugin %s got generator parameters %q, the command line says %q", pl.Name, got, want)
					}
				}
			}
			if !ok {
				return bad("language", "language", "plugin %s was told language %q, which was not requested", pl.Name, lang)
			}
			wantPP := normParams(splitParams(pl.Opts))
			gotPP := normParams(noteStrs(pr.Notes, "req.plugin_parameters"))
			if strings.Join(wantPP, "\x00") != strings.Join(gotPP, "\x00") {
				return bad("plugin-parameters", "plugin-parameters", "plugin %s got plugin parameters %q, the command line says %q", pl.Name, gotPP, wantPP)
			}
			wantOut := "/work/out"
			if c.NoOut {
				wantOut = "./gen-" + lang
			}
			if op := noteStr(pr.Notes, "req.output_path"); op != wantOut {
				return bad("output-path", "output-path", "plugin %s (language %s) was told output path %q, the command line says %s", pl.Name, lang, op, wantOut)
			}
			var rec bool
			json.Unmarshal(pr.Notes["req.recursive"], &rec)
			if rec != c.Cfg.Rec {
				return bad("recursive-flag", "recursive-flag", "plugin %s was told recursive=%v, the command line says %v", pl.Name, rec, c.Cfg.Rec)
			}
		}
	} else if len(res.Procs) > 0 {
		v.Trivia["taps-misaligned"]++
	}

	// ---- clause 4: deadline ----
	anyFailure := ""
	for _, pr := range res.Procs {
		pl := byPath[pr.Path]
		if pl == nil {
			continue
		}
		if pr.Killed {
			v.Trivia["killed"]++
			if L <= 0 {
				return bad("killed-without-limit", "killed-without-limit", "plugin %s was killed although --plugin-time-limit is 0", pl.Name)
			}
			if pr.KilledAt-pr.Start < L {
				return bad("killed-early", "killed-early", "plugin %s was killed %v after its start, before the limit %v", pl.Name, time.Duration(pr.KilledAt-pr.Start), time.Duration(L))
			}
			anyFailure = fmt.Sprintf("plugin %s exceeded the time limit and was killed", pl.Name)
		} else if pr.Finished {
			if L > 0 && pr.End-pr.Start > L {
				return bad("not-killed", "not-killed", "plugin %s ran for %v, longer than the limit %v, and was never killed", pl.Name, time.Duration(pr.End-pr.Start), time.Duration(L))
			}
		}
	}

	// ---- clause 3: failure => failure ----
	for _, pr := range res.Procs {
		pl := byPath[pr.Path]
		if pl == nil || pr.Killed {
			continue
		}
		if !pr.Finished {
			continue
		}
		cls := noteStr(pr.Notes, "out.class")
		switch {
		case pr.Exit != 0:
			anyFailure = fmt.Sprintf("plugin %s exited with status %d", pl.Name, pr.Exit)
		case pl.Script["error"] != nil && cls == "valid" && string(pr.Notes["out.mangled"]) == "false" && pr.Notes["fault.skipped_for_language"] == nil:
			anyFailure = fmt.Sprintf("plugin %s answered with an error", pl.Name)
		case cls == "invalid":
			anyFailure = fmt.Sprintf("plugin %s wrote output that is not a Response (%s)", pl.Name, pl.Script["mangle"])
		case pl.Kind == "orphan-first" && cls == "valid" && string(pr.Notes["out.mangled"]) == "false":
			anyFailure = fmt.Sprintf("plugin %s's response begins with a patch that has no target file", pl.Name)
		}
		if anyFailure != "" {
			break
		}
	}
	// ---- clause 2: warnings of every decodable, undamaged response are shown (also when it carries an error) ----
	warnWant := map[string]int{}
	if !c.Quiet {
		for _, pr := range res.Procs {
			pl := byPath[pr.Path]
			if pl == nil || !pr.Finished || pr.Exit != 0 || noteStr(pr.Notes, "out.class") != "valid" || string(pr.Notes["out.mangled"]) != "false" || pl.Kind == "orphan-first" {
				continue
			}
			if ws, ok := pl.Script["warnings"].([]interface{}); ok {
				for _, w := range ws {
					// every run of the plugin (one per target language) that gave the warning counts: shown each time
					s, _ := w.(string)
					if s != "" {
						warnWant[s]++
					}
					if s != "" && strings.Count(wr.Stderr, s) < warnWant[s] {
						return bad("warning-lost", "warning-lost", "plugin %s's warning %q was given %d time(s) by plugin runs of this invocation and is shown %d time(s)", pl.Name, s, warnWant[s], strings.Count(wr.Stderr, s))
					}
				}
				v.Trivia["warnings-checked"]++
			}
		}
	}
	if anyFailure != "" {
		v.Trivia["plugin-failure"]++
		if exit == 0 {
			return bad("plugin-failure-ignored", "plugin-failure-ignored", "%s, yet thriftgo exited with status 0", anyFailure)
		}
		return v
	}

	// ---- clause 2: what a healthy plugin answered is what is handed to the file manager ----
	{
		groups := feedGroups(res)
		gi := -1
		used := map[string]int{} // per (group, plugin) next feed to match
		_ = used
		// processes run in order; a new group starts whenever the first plugin of the command line runs again
		var firstPlugin string
		if len(c.Plugins) > 0 {
			firstPlugin = c.path(&c.Plugins[0])
		}
		for _, pr := range res.Procs {
			pl := byPath[pr.Path]
			if pl == nil {
				continue
			}
			if pr.Path == firstPlugin {
				gi++
			}
			if gi < 0 || gi >= len(groups) || !pr.Finished || pr.Exit != 0 || string(pr.Notes["out.mangled"]) != "false" || noteStr(pr.Notes, "out.class") != "valid" || pl.Script["error"] != nil && pr.Notes["fault.skipped_for_language"] == nil {
				continue
			}
			if pl.Kind == "orphan-first" {
				continue
			}
			// the feed of this plugin in this language group
			fs, _ := pl.Script["files"].([]interface{})
			outPath := noteStr(pr.Notes, "req.output_path")
			// does the feed fc carry exactly the items of this plugin's answer? ("" = yes)
			differs := func(fc *fedCall) (string, string) {
				if len(fc.Files) != len(fs) {
					return "response-not-honoured:count", fmt.Sprintf("plugin %s answered with %d items, %d were handed to the file manager", pl.Name, len(fs), len(fc.Files))
				}
				for k, raw := range fs {
					f, _ := raw.(map[string]interface{})
					name, _ := f["name"].(string)
					if name != "" && pl.Script["out_prefix"] == "$OUT" && outPath != "" && f["abs"] != true {
						name = outPath + "/" + name
					}
					content, _ := f["content"].(string)
					ip, _ := f["ip"].(string)
					g := fc.Files[k]
					if string(g.Content) != content || string(g.Name) != name || string(g.IP) != ip {
						return "response-not-honoured:item", fmt.Sprintf("item %d of plugin %s's answer is (name %q, point %q, %d bytes) but (name %q, point %q, %d bytes) was handed to the file manager", k, pl.Name, name, ip, len(content), string(g.Name), string(g.IP), len(g.Content))
					}
				}
				return "", ""
			}
			// two plugins may share a name (two executables): among the feeds under this name that no
			// other process has been matched with, the one that carries this answer is this plugin's
			var cands []int
			for k := range groups[gi] {
				if groups[gi][k].Src == pl.Name && used[fmt.Sprintf("%d|%d", gi, k)] == 0 {
					cands = append(cands, k)
				}
			}
			if len(cands) == 0 {
				if len(fs) > 0 && exit == 0 {
					return bad("response-not-honoured", "response-not-honoured:not-fed", "plugin %s answered healthily with %d items, but nothing of it was handed to the file manager", pl.Name, len(fs))
				}
				continue
			}
			matched := false
			for _, k := range cands {
				if sig, _ := differs(&groups[gi][k]); sig == "" {
					used[fmt.Sprintf("%d|%d", gi, k)] = 1
					matched = true
					break
				}
			}
			if !matched {
				sig, msg := differs(&groups[gi][cands[0]])
				return bad("response-not-honoured", sig, "%s", msg)
			}
			v.Trivia["responses-compared"]++
		}
	}

	// ---- clause 5: exit 0 => complete output ----
	groups := feedGroups(res)
	ptaps := persistTaps(res)
	allHealthy := true
	for i := range c.Plugins {
		k := c.Plugins[i].Kind
		if !strings.HasPrefix(k, "healthy") && k != "slow-within-limit" && k != "slow-no-limit" {
			allHealthy = false
		}
	}
	if exit != 0 {
		if allHealthy {
			// clause 2, first half: healthy plugins must not make thriftgo fail
			odd := false
			for _, pr := range res.Procs {
				if noteStr(pr.Notes, "out.class") != "valid" {
					odd = true
				}
			}
			if !odd {
				return bad("healthy-run-failed", "healthy-run-failed", "every plugin answered healthily, yet thriftgo exited with status %d: %s", exit, clip(wr.Stderr, 600))
			}
		}
		return v
	}
	// output that was damaged in transit but still decodes is left unasserted (DESIGN 5.3 clause 3);
	// damaged names need not even be valid UTF-8, which the JSON transport of the result cannot carry
	for _, pr := range res.Procs {
		if string(pr.Notes["out.mangled"]) == "true" {
			v.Trivia["assembly-not-judged-mangled-output"]++
			return v
		}
	}
	if len(groups) != len(langs) {
		return bad("exit0-incomplete", "exit0-incomplete:language-skipped", "thriftgo exited with status 0 but produced output for %d of %d requested languages; stdout: %s", len(groups), len(langs), clip(wr.Stdout, 300))
	}
	noFmt := false
	for _, o := range c.Cfg.Opts {
		if o == "no_fmt" || o == "no_fmt=true" {
			noFmt = true
		}
	}
	for gi, g := range groups {
		var pt *persistTap
		if gi < len(ptaps) {
			pt = ptaps[gi]
		}
		// with two languages the second one is formatted by the first one's post-processor or not at all:
		// content is compared with and without formatting in judgeOutput, so noFmt only matters for language 0
		over := map[string]bool{}
		for gj := gi + 1; gj < len(ptaps); gj++ {
			for _, f := range ptaps[gj].Files {
				p := string(f.Name)
				if !filepath.IsAbs(p) {
					p = filepath.Join(c.Cwd, p)
				}
				over[filepath.Clean(p)] = true
			}
		}
		cls, sig, msg, judged := judgeOutput(c.Cwd, noFmt && gi == 0, res, g, pt, over)
		if !judged {
			v.Trivia["assembly-not-judged"]++
			continue
		}
		if cls != "" {
			return bad(cls, sig, "language %d: %s", gi, msg)
		}
		v.Trivia["assembly-judged"]++
	}

	// ---- clause 2: warnings shown ----
	warnWant = map[string]int{}
	if !c.Quiet {
		for _, pr := range res.Procs {
			pl := byPath[pr.Path]
			var mangled bool
			json.Unmarshal(pr.Notes["out.mangled"], &mangled)
			if pl == nil || !pr.Finished || noteStr(pr.Notes, "out.class") != "valid" || mangled {
				continue
			}
			if ws, ok := pl.Script["warnings"].([]interface{}); ok {
				for _, w := range ws {
					// every run of the plugin (one per target language) that gave the warning counts: shown each time
					s, _ := w.(string)
					if s != "" {
						warnWant[s]++
					}
					if s != "" && strings.Count(wr.Stderr, s) < warnWant[s] {
						return bad("warning-lost", "warning-lost", "plugin %s's warning %q was given %d time(s) by plugin runs of this invocation and is shown %d time(s)", pl.Name, s, warnWant[s], strings.Count(wr.Stderr, s))
					}
				}
			}
			if s, _ := pl.Script["stderr"].(string); s != "" && !strings.Contains(wr.Stderr, strings.TrimSpace(s)) {
				v.Trivia["stderr-text-not-shown"]++
			}
		}
	}
	return v
}

func bucketN(n int) int {
	switch {
	case n <= 2:
		return n
	case n <= 5:
		return 5
	case n <= 10:
		return 10
	}
	return 20
}

// c11SameLinesSet: gofmt may re-indent and align; accept equality of the
// multiset of white-space-free lines (order-insensitive for import sorting).
func c11SameLinesSet(a, b string) bool {
	f := func(s string) string {
		var ls []string
		for _, l := range strings.Split(s, "\n") {
			l = stripWS(l)
			if l != "" {
				ls = append(ls, l)
			}
		}
		sort.Strings(ls)
		return strings.Join(ls, "\n")
	}
	return f(a) == f(b)
}

func c11GenCase(seed uint64, bo *backendOpts, corp []*program, idx int) *c11Case {
	r := simrt.NewRand(seed)
	var prog *program
	if idx%5 == 4 && len(corp) > 0 {
		prog = corp[(idx/5)%len(corp)]
	} else {
		o := idlgen.Options{MaxFiles: 5, MaxDefs: 6, Rich: idx%3 == 0}
		if idx%11 == 10 {
			// a large request (more than a pipe buffer): matters for plugins that do not drain their stdin
			o = idlgen.Options{MaxFiles: 3, MaxDefs: 140}
		}
		prog = genProgram(simrt.Mix(seed, 0xa57), o)
	}
	c := &c11Case{Prog: prog.Name, Files: prog.Files, Cwd: prog.Cwd, Main: prog.Main, Seed: seed}
	c.Cfg = config{Backend: []string{"go", "go", "go", "fastgo"}[r.Intn(4)], Rec: r.Chance(2, 3)}
	if c.Cfg.Backend == "go" {
		switch r.Intn(4) {
		case 0:
			c.Cfg.Opts = []string{"no_fmt"}
		case 1:
			c.Cfg.Opts = []string{"no_fmt", "gen_setter=true", "package_prefix=example.com/p"}
		case 2:
			c.Cfg.Opts = []string{"frugal_tag", "template=slim"}
		}
	}
	if r.Chance(1, 7) {
		c.Second = &config{Backend: map[string]string{"go": "fastgo", "fastgo": "go"}[c.Cfg.Backend]}
	}
	c.Limit = []string{"", "", "0", "50ms", "1s", "1m", "3s"}[r.Intn(7)]
	c.Quiet = r.Chance(1, 8)
	c.Debug = r.Chance(1, 8)
	c.NoOut = r.Chance(1, 6) || (c.Second != nil && r.Chance(1, 2))
	c.Compress = r.Chance(1, 2)
	c.Strategy = []string{"random", "rtb", "pct"}[r.Intn(3)]
	c.Par = 1 + r.Intn(16)
	c.MapMode = []string{"sorted", "random", "reversed"}[r.Intn(3)]
	return c
}

func c11Check(a *artefacts, tier string, seed uint64, replay string) int {
	t0 := time.Now()
	if replay != "" {
		return c11Replay(a, replay)
	}
	rep := newReporter("C11")
	bo := loadOptions(a)
	corp := corpus()
	n := 700
	budget := 5 * time.Minute
	if tier == "thorough" {
		n, budget = 60000, 45*time.Minute
	}
	deadline := t0.Add(budget)
	var mu sync.Mutex
	type found struct {
		c *c11Case
		v *c11Verdict
	}
	var founds []*found
	stats := map[string]int{}
	faults := map[string]int{}
	trivia := map[string]int{}
	distinct := map[string]bool{}
	var samples []interface{}
	var simNanos int64
	runs := 0
	var trouble error
	parallelMap(n, func(i int) {
		if time.Now().After(deadline) {
			mu.Lock()
			stats["cases.skipped-deadline"]++
			mu.Unlock()
			return
		}
		cs := simrt.Mix(seed, uint64(i))
		c := c11GenCase(cs, bo, corp, i)
		// plugin-less baseline: accepted? which files does the backend hand in?
		base := *c
		base.Plugins = nil
		base.Prelude = nil
		bw := runWorld(a, base.spec())
		mu.Lock()
		runs++
		mu.Unlock()
		if bw.Res == nil {
			mu.Lock()
			if bw.Watchdog {
				stats["baseline.watchdog"]++
			} else if trouble == nil {
				trouble = fmt.Errorf("baseline of case %d: %v", i, bw.Err)
			}
			mu.Unlock()
			return
		}
		if !accepted(bw) {
			mu.Lock()
			stats["cases.discarded-rejected"]++
			mu.Unlock()
			return
		}
		var backendFiles []string
		for _, t := range bw.Res.Taps["feed"] {
			var fc fedCall
			json.Unmarshal(t, &fc)
			for _, f := range fc.Files {
				if f.HasName && !f.HasIP && strings.HasSuffix(string(f.Name), ".go") {
					backendFiles = append(backendFiles, string(f.Name))
				}
			}
		}
		r := simrt.NewRand(simrt.Mix(cs, 0x9106))
		np := 1 + r.Intn(3)
		if r.Chance(1, 2) {
			np = 1
		}
		for k := 0; k < np; k++ {
			c.Plugins = append(c.Plugins, c11GenPlugin(r, k, c.limit(), backendFiles))
		}
		if np >= 2 && r.Chance(1, 2) {
			// the same plugin name twice, two different executables (possibly linked against different
			// thriftgo versions): what each receives depends on its own executable
			c.Plugins[1].Name = c.Plugins[0].Name
			c.Plugins[1].Alt = "-other"
			c.Plugins[1].ByPath = true
			if r.Chance(2, 3) {
				// one of them linked against a thriftgo that understands compressed includes, the other not
				vs := []string{[]string{"v0.4.2", "v0.5.0", "v1.0.0"}[r.Intn(3)], []string{"v0.4.1", "v0.3.99", ""}[r.Intn(3)]}
				k := r.Intn(2)
				// both answer healthily more often than not, so that the second one's request is compared
				for t := 0; t < 6 && c.Plugins[0].Kind != "healthy"; t++ {
					c.Plugins[0] = c11GenPlugin(r, 0, c.limit(), backendFiles)
				}
				for t := 0; t < 6 && c.Plugins[1].Script["decode"] != true; t++ {
					c.Plugins[1] = c11GenPlugin(r, 1, c.limit(), backendFiles)
				}
				c.Plugins[1].Name, c.Plugins[1].Alt, c.Plugins[1].ByPath = c.Plugins[0].Name, "-other", true
				c.Plugins[0].Version, c.Plugins[1].Version = vs[k], vs[1-k]
				c.Compress = true
			}
		}
		// a quarter of the cases are sessions: an earlier invocation in the same process with its own
		// plugin (healthy, failing or slow) and its own time limit
		if r.Chance(1, 4) {
			pre := c11Prelude{Cfg: config{Backend: []string{"go", "fastgo"}[r.Intn(2)], Rec: r.Chance(1, 2)}, Limit: []string{"", "50ms", "1s", "1m", "0"}[r.Intn(5)]}
			lim := time.Minute
			if pre.Limit != "" {
				if d, err := time.ParseDuration(pre.Limit); err == nil {
					lim = d
				}
			}
			pp := c11GenPlugin(r, 7, lim, backendFiles)
			pp.Name = "q0"
			if r.Chance(1, 3) && len(c.Plugins) > 0 {
				// the earlier invocation used another executable under the name of this invocation's first plugin
				pp.Name, pp.Alt, pp.ByPath = c.Plugins[0].Name, "-earlier", true
			}
			pre.Plugins = []c11Plugin{pp}
			if r.Chance(1, 3) && len(c.Plugins) > 0 {
				// the same command run twice in one process: the earlier invocation has the very same plugins
				// (same executables, same options, hence the same answers and warnings) and the same time limit
				pre.Plugins = append([]c11Plugin(nil), c.Plugins...)
				pre.Cfg = c.Cfg
				pre.Limit = c.Limit
			}
			c.Prelude = append(c.Prelude, pre)
		}
		// a host program with an in-process plugin of its own (an eighth of the cases)
		if r.Chance(1, 8) {
			c.SdkPlug = true
			c.Debug = false
		}
		// with two languages, some faulty plugins misbehave for one language only
		if c.Second != nil {
			for k := range c.Plugins {
				pl := &c.Plugins[k]
				if (pl.Kind == "error" || pl.Kind == "exit" || pl.Kind == "garbled") && pl.Script["decode"] == true && r.Chance(1, 2) {
					pl.Script["fault_lang"] = []string{c.Cfg.Backend, c.Second.Backend}[r.Intn(2)]
				}
			}
		}
		// uniform JSON types (the case is later re-read from replay files)
		{
			var cc c11Case
			if err := fromDoc(toDoc(c), &cc); err == nil {
				c = &cc
			}
		}
		wr := runWorld(a, c.spec())
		mu.Lock()
		runs++
		mu.Unlock()
		if wr.Res == nil {
			mu.Lock()
			if wr.Watchdog {
				stats["run.watchdog"]++
				founds = append(founds, &found{c, &c11Verdict{Class: "hang", Sig: "hang:watchdog", Msg: "the simulated command did not end within the wall-clock watchdog"}})
			} else if trouble == nil {
				trouble = fmt.Errorf("case %d: %v", i, wr.Err)
			}
			mu.Unlock()
			return
		}
		v := c11Judge(c, wr)
		mu.Lock()
		defer mu.Unlock()
		simNanos += wr.Res.SimNanos
		stats["cases.judged"]++
		kinds := []string{}
		for _, p := range c.Plugins {
			faults["plugin-script."+p.Kind]++
			kinds = append(kinds, p.Kind)
			if m, _ := p.Script["mangle"].(string); m != "" {
				faults["garbled."+m]++
			}
		}
		for k, n := range wr.Res.Counters {
			if strings.HasPrefix(k, "proc.") || strings.HasPrefix(k, "ctx.") {
				faults[k] += n
			}
		}
		for k, n := range v.Trivia {
			trivia[k] += n
		}
		if c.Second != nil {
			stats["cases.two-languages"]++
		}
		if c.Compress {
			stats["cases.compress-env"]++
		}
		if len(c.Prelude) > 0 {
			stats["cases.sessions-with-earlier-invocation"]++
			if len(wr.Res.Sections) == 0 {
				stats["cases.session-ended-in-prelude"]++
			}
		}
		distinct[fmt.Sprintf("%s|%s|%v|%s|%v", c.Prog, c.Cfg, kinds, c.Limit, c.Compress)] = true
		if len(samples) < 3 {
			samples = append(samples, map[string]interface{}{"argv": c.spec().Args, "plugins": c.Plugins, "exit": wr.Res.Exit, "sim_ns": wr.Res.SimNanos, "procs": len(wr.Res.Procs)})
		}
		if v.Class != "" {
			founds = append(founds, &found{c, v})
		}
	})
	if trouble != nil {
		die(2, "simulator trouble: %v", trouble)
	}
	fmt.Fprintf(os.Stderr, "vcheck: C11 cases done at %.1fs (%d runs, %d findings)\n", time.Since(t0).Seconds(), runs, len(founds))

	// one representative per signature: minimise, replay, report
	sort.SliceStable(founds, func(i, j int) bool { return len(founds[i].c.Plugins) < len(founds[j].c.Plugins) })
	seen := map[string]bool{}
	var reps []*found
	for _, f := range founds {
		if !seen[f.v.Sig] {
			seen[f.v.Sig] = true
			reps = append(reps, f)
		}
	}
	if len(reps) > 8 {
		reps = reps[:8]
	}
	parallelMap(len(reps), func(i int) { reps[i].c, reps[i].v = c11Minimise(a, reps[i].c, reps[i].v) })
	for nrep, f := range reps {
		payload, _ := json.Marshal(f.c)
		rf := &replayFile{Property: "C11", Kind: "cmd:c11", Class: f.v.Class, Sig: f.v.Sig, Msg: f.v.Msg, Seed: f.c.Seed, Payload: payload}
		path := writeReplay(rf, nrep)
		if ok, why := c11ReplayOK(a, rf); !ok {
			die(2, "replay file %s does not reproduce: %s", path, why)
		}
		rep.report(f.v.Sig, f.v.Msg, path)
	}

	// real-process cross-check of the os/exec stub
	xok, xn, xmsg := c11CrossCheck(a, tier, seed)
	if !xok {
		die(2, "os/exec stub disagrees with real processes: %s", xmsg)
	}

	wall := time.Since(t0).Seconds()
	if len(samples) == 0 {
		samples = append(samples, "none")
	}
	cov := map[string]interface{}{
		"evaluations":             runs,
		"distinct_nontrivial":     len(distinct),
		"rule":                    "a case = (program, -g configuration(s), 1..3 scripted plugins, --plugin-time-limit, compression env, schedule, map mode) run once in the simulator after a plugin-less baseline; non-trivial = at least one plugin process was started; distinct by (program, configuration, plugin script kinds, limit, compression)",
		"samples":                 samples,
		"cases":                   stats,
		"faults_fired":            faults,
		"oracle_reach":            trivia,
		"simulated_time_ns":       simNanos,
		"runs_per_hour":           int(float64(runs) / wall * 3600),
		"real_process_crosscheck": map[string]interface{}{"cases": xn, "result": xmsg},
		"real_vs_stub": map[string]interface{}{
			"real": []string{"main.main", "sdk.InvokeThriftgo", "args (plugin option parsing)", "generator.Generate (parameter packing, plugin loop, FileManager)", "plugin.external.Execute, Marshal/UnmarshalRequest, include compression, data trailer, UnmarshalResponse", "persist"},
			"stub": []string{"plugin child processes (scripted, simulated os/exec, pipes, exit codes, kill)", "debug/buildinfo", "context deadline and clock (simulated time)", "disk, argv, env, exit", "goroutine scheduling, map iteration order"},
		},
		"tree": a.Hash,
	}
	writeEvidence(&evidence{PropertyID: "C11", Tier: tier, Seed: int64(seed & 0x7fffffffffffffff), Level: "fault_enumeration", Coverage: cov,
		Assumptions: []string{
			"the simulated os/exec follows Go's documented Cmd.Run/Wait semantics (exit status, kill on context deadline, output copied before Wait returns); a small real-process cross-check compares its outcomes with real child processes",
			"plugin output that an independent reader of the Response schema accepts although it was damaged is not asserted either way",
			"a clean batch is evidence, not proof",
		}, WallS: wall, Violations: rep.violations})
	fmt.Printf("C11 %s: %d runs, %d cases judged (%d distinct), %d finding(s), %d violation(s), %d known finding(s), simulated %.1f h, %.1fs\n",
		tier, runs, stats["cases.judged"], len(distinct), len(founds), rep.violations, len(rep.known), float64(simNanos)/3.6e12, wall)
	if rep.violations > 0 {
		return 1
	}
	return 0
}

func c11RunJudge(a *artefacts, c *c11Case) *c11Verdict {
	// the same command without plugins must be accepted, otherwise the case says nothing about plugins
	base := *c
	base.Plugins = nil
	base.Prelude = nil
	if !accepted(runWorld(a, base.spec())) {
		return &c11Verdict{}
	}
	wr := runWorld(a, c.spec())
	if wr.Res == nil {
		if wr.Watchdog {
			return &c11Verdict{Class: "hang", Sig: "hang:watchdog"}
		}
		return &c11Verdict{}
	}
	return c11Judge(c, wr)
}

func c11Minimise(a *artefacts, c *c11Case, v *c11Verdict) (*c11Case, *c11Verdict) {
	pred := func(d interface{}) bool {
		var cc c11Case
		if err := fromDoc(d, &cc); err != nil {
			return false
		}
		return c11RunJudge(a, &cc).Class == v.Class
	}
	doc := toDoc(c)
	if !pred(doc) {
		return c, v
	}
	opts := &shrinkOpts{Protect: map[string]bool{"files": true, "cwd": true, "main": true, "program": true, "seed": true, "name": true, "kind": true, "Backend": true},
		NoDrop: map[string]bool{"config": true, "script": true}, Budget: 250}
	doc, _ = shrinkDoc(doc, opts, pred)
	var out c11Case
	fromDoc(doc, &out)
	if strings.HasPrefix(out.Prog, "idlgen:") {
		out.Files = c07ShrinkFiles(out.Files, func(files map[string][]byte) bool {
			q := out
			q.Files = files
			return c11RunJudge(a, &q).Class == v.Class
		})
	}
	nv := c11RunJudge(a, &out)
	if nv.Class != v.Class {
		return c, v
	}
	return &out, nv
}

func c11ReplayOK(a *artefacts, rf *replayFile) (bool, string) {
	var c c11Case
	if err := json.Unmarshal(rf.Payload, &c); err != nil {
		return false, err.Error()
	}
	var h string
	for i := 0; i < 2; i++ {
		wr := runWorld(a, c.spec())
		if wr.Res == nil {
			if rf.Class == "hang" && wr.Watchdog {
				continue
			}
			return false, fmt.Sprintf("no result: %v", wr.Err)
		}
		v := c11Judge(&c, wr)
		if v.Class != rf.Class {
			return false, fmt.Sprintf("class %q, recorded %q", v.Class, rf.Class)
		}
		if i == 1 && wr.Res.LogHash != h {
			return false, "event-log hash differs between two replays"
		}
		h = wr.Res.LogHash
	}
	return true, ""
}

func c11Replay(a *artefacts, path string) int {
	rf := readReplay(path)
	ok, why := c11ReplayOK(a, rf)
	if ok {
		fmt.Printf("VIOLATION property=C11 replay=%s\n  reproduced: %s\n  %s\n", path, rf.Sig, rf.Msg)
		return 1
	}
	fmt.Printf("replay of %s did not reproduce the recorded violation on this tree: %s\n", path, why)
	return 0
}

// c11CrossCheck compares the simulated os/exec with real child processes (see c11x.go).
