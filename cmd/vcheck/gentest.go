package main

import (
	"fmt"
	"os"
	"os/exec"
	"path/filepath"
	"sort"
	"strings"
	"sync"

	"verif/sim/idlgen"
	"verif/sim/simrt"
)

// genTest measures how many generated programs the plain compiler accepts.
func genTest(a *artefacts, n int, seed uint64) int {
	var mu sync.Mutex
	acc, rej := 0, 0
	reasons := map[string]int{}
	stats := map[string]int{}
	parallelMap(n, func(i int) {
		r := simrt.NewRand(simrt.Mix(seed, uint64(i)))
		p := idlgen.Generate(r, idlgen.Options{})
		d := tmpDir()
		defer os.RemoveAll(d)
		for name, b := range p.FileMap(d) {
			os.MkdirAll(filepath.Dir(name), 0o755)
			os.WriteFile(name, b, 0o644)
		}
		be := []string{"go", "fastgo"}[i%2]
		cmd := exec.Command(a.Real, "-g", be, "-r", "-o", filepath.Join(d, "out"), "main.thrift")
		cmd.Dir = d
		out, err := cmd.CombinedOutput()
		mu.Lock()
		defer mu.Unlock()
		for k, v := range p.Stats {
			stats[k] += v
		}
		if err != nil {
			rej++
			l := strings.Split(strings.TrimSpace(string(out)), "\n")
			msg := l[len(l)-1]
			if len(msg) > 150 {
				msg = msg[:150]
			}
			reasons[msg]++
			if rej == 1 && os.Getenv("VERIF_DUMP_REJ") != "" {
				for name, b := range p.FileMap(os.Getenv("VERIF_DUMP_REJ")) {
					os.MkdirAll(filepath.Dir(name), 0o755)
					os.WriteFile(name, b, 0o644)
				}
			}
			if rej <= 3 {
				fmt.Printf("--- rejected (seed index %d, backend %s): %s\n", i, be, clip(string(out), 600))
				for _, f := range p.Files {
					fmt.Printf("## %s\n%s", f.Path, f.Text())
				}
			}
		} else {
			acc++
		}
	})
	fmt.Printf("accepted %d rejected %d\n", acc, rej)
	var ks []string
	for k := range reasons {
		ks = append(ks, k)
	}
	sort.Strings(ks)
	for _, k := range ks {
		fmt.Printf("%5d %s\n", reasons[k], k)
	}
	fmt.Println(stats)
	return 0
}
