package main

import (
	"encoding/json"
	"fmt"
	"time"

	"verif/sim/simrt"
)

// c14GCPhase: the memory-reclamation phase of C14 (driver "c14gc"): masks that
// live for one request, serialised through fieldmask.Marshal's cache, with a
// real garbage collection between requests at seeded points.  The collector and
// the allocator are real, so the phase is outside the determinism self-test and
// a finding is confirmed by class: the replay file must reproduce the class in
// a fresh process (up to three attempts), otherwise exit 2.
func c14GCPhase(a *artefacts, tier string, seed uint64, rep *reporter) map[string]interface{} {
	n := uint64(48)
	if tier == "thorough" {
		n = 4000
	}
	t0 := time.Now()
	m, err := runBatches(a, "c14gc", tier, seed^0x6c14, n, 12, t0.Add(10*time.Minute))
	if err != nil {
		die(2, "c14gc batch: %v", err)
	}
	reported := 0
	for _, v := range m.Violations {
		if reported >= 1 {
			break
		}
		payload, _ := json.Marshal(v.Spec)
		rf := &replayFile{Property: "C14", Kind: "lib:c14gc", Class: v.Class, Sig: v.Sig, Msg: v.Msg, Seed: v.Spec.Seed, Payload: payload}
		path := writeReplay(rf, 90+reported)
		if ok, why := c14GCReplayOK(a, rf); !ok {
			die(2, "replay file %s does not reproduce: %s", path, why)
		}
		rep.report(v.Sig, v.Msg, path)
		reported++
	}
	return map[string]interface{}{
		"phase":        "memory reclamation: short-lived masks through fieldmask.Marshal, real runtime.GC() between requests at seeded points",
		"worlds":       m.Runs,
		"requests":     m.Counters["gcphase.requests"],
		"faults_fired": map[string]int{"fault.gc-cycle-between-requests": m.Counters["fault.gc-cycle-between-requests"]},
		"wall_s":       time.Since(t0).Seconds(),
		"determinism":  "seeded workload, real collector and allocator: not covered by the determinism self-test; findings are confirmed by class in a fresh process",
	}
}

func c14GCReplayOK(a *artefacts, rf *replayFile) (bool, string) {
	var sp simrt.Spec
	if err := json.Unmarshal(rf.Payload, &sp); err != nil {
		return false, err.Error()
	}
	last := ""
	for i := 0; i < 3; i++ {
		outs, err := runSpecs(a, "c14gc", []*simrt.Spec{&sp}, false)
		if err != nil {
			return false, err.Error()
		}
		if outs[0].Class == rf.Class {
			return true, ""
		}
		last = fmt.Sprintf("class %q, recorded %q", outs[0].Class, rf.Class)
	}
	return false, last
}
