package main

import (
	"encoding/json"
	"fmt"
	"os"
	"os/exec"
	"path/filepath"
	"sort"
	"strings"
	"time"

	"verif/sim/idlgen"
	"verif/sim/simrt"
)

// ---- programs ----

type program struct {
	Name  string            // identity for reports
	Files map[string][]byte // absolute simulated paths
	Cwd   string
	Main  string // as given on the command line (relative to Cwd)
	Model *idlgen.Program
	Seed  uint64
}

func genProgram(seed uint64, o idlgen.Options) *program {
	r := simrt.NewRand(seed)
	m := idlgen.Generate(r, o)
	return &program{Name: fmt.Sprintf("idlgen:%d", seed), Files: m.FileMap("/work"), Cwd: "/work", Main: "main.thrift", Model: m, Seed: seed}
}

// corpus returns one program per .thrift file shipped in the repository, with
// every .thrift file of the repository on the simulated disk at its own place.
func corpus() []*program {
	all := map[string][]byte{}
	var mains []string
	filepath.Walk(repoDir, func(p string, fi os.FileInfo, err error) error {
		if err != nil {
			return nil
		}
		if fi.IsDir() && fi.Name() == ".git" {
			return filepath.SkipDir
		}
		if !fi.IsDir() && strings.HasSuffix(p, ".thrift") {
			b, err := os.ReadFile(p)
			if err == nil {
				rel, _ := filepath.Rel(repoDir, p)
				all["/work/repo/"+rel] = b
				mains = append(mains, rel)
			}
		}
		return nil
	})
	sort.Strings(mains)
	var ps []*program
	for _, m := range mains {
		files := map[string][]byte{}
		var add func(p string)
		add = func(p string) {
			if _, ok := files[p]; ok {
				return
			}
			b, ok := all[p]
			if !ok {
				return
			}
			files[p] = b
			for _, l := range strings.Split(string(b), "\n") {
				l = strings.TrimSpace(l)
				if strings.HasPrefix(l, "include") {
					if i := strings.IndexAny(l, "\"'"); i >= 0 {
						rest := l[i+1:]
						if j := strings.IndexAny(rest, "\"'"); j >= 0 {
							add(filepath.Join(filepath.Dir(p), rest[:j]))
						}
					}
				}
			}
		}
		add("/work/repo/" + m)
		ps = append(ps, &program{Name: "corpus:" + m, Files: files, Cwd: filepath.Dir("/work/repo/" + m), Main: filepath.Base(m)})
	}
	return ps
}

// ---- backend options of the tree under test ----

type backendOpts struct {
	Go     [][2]string `json:"go"`
	Fastgo [][2]string `json:"fastgo"`
}

func loadOptions(a *artefacts) *backendOpts {
	d := tmpDir()
	defer os.RemoveAll(d)
	bp := filepath.Join(d, "b.json")
	rp := filepath.Join(d, "r.json")
	os.WriteFile(bp, []byte(`{"kind":"options"}`), 0o644)
	cmd := exec.Command(a.Sim)
	cmd.Env = []string{"VERIF_BATCH=" + bp, "VERIF_RESULT=" + rp}
	if out, err := cmd.CombinedOutput(); err != nil {
		die(2, "cannot list backend options: %v\n%s", err, out)
	}
	var bo backendOpts
	b, _ := os.ReadFile(rp)
	if err := json.Unmarshal(b, &bo); err != nil {
		die(2, "options: %v", err)
	}
	return &bo
}

var valuedOptions = map[string][]string{
	"template":           {"slim", "raw_struct"},
	"thrift_import_path": {"example.com/thrift"},
	"use_package":        {"database/sql/driver=example.com/drv"},
	"naming_style":       {"golint", "apache", "thriftgo"},
	"package_prefix":     {"example.com/pfx", "x/y"},
}

var skipOptions = map[string]bool{}

// config is one backend/option configuration.
type config struct {
	Backend string
	Opts    []string // "name" or "name=value"
	Rec     bool     // -r
}

func (c config) String() string {
	s := c.Backend
	if len(c.Opts) > 0 {
		s += ":" + strings.Join(c.Opts, ",")
	}
	if c.Rec {
		s += " -r"
	}
	return s
}

func (c config) gArg() string {
	if len(c.Opts) == 0 {
		return c.Backend
	}
	return c.Backend + ":" + strings.Join(c.Opts, ",")
}

func optVariants(name string) []string {
	if vs, ok := valuedOptions[name]; ok {
		var out []string
		for _, v := range vs {
			out = append(out, name+"="+v)
		}
		return out
	}
	return []string{name, name + "=true", name + "=false"}
}

// configs: every option alone, with =true/=false, and random combinations.
func genConfigs(bo *backendOpts, r *simrt.Rand, n int) []config {
	var names []string
	for _, o := range bo.Go {
		if !skipOptions[o[0]] {
			names = append(names, o[0])
		}
	}
	var out []config
	out = append(out, config{Backend: "go", Rec: true}, config{Backend: "fastgo", Rec: true}, config{Backend: "go"},
		config{Backend: "fastgo", Opts: []string{"no_fmt"}, Rec: true}, config{Backend: "go", Opts: []string{"no_fmt"}, Rec: true})
	for _, nm := range names {
		for _, v := range optVariants(nm) {
			out = append(out, config{Backend: "go", Opts: []string{v}, Rec: r.Chance(2, 3)})
		}
	}
	for len(out) < n {
		k := 2 + r.Intn(5)
		seen := map[string]bool{}
		var opts []string
		for i := 0; i < k; i++ {
			nm := names[r.Intn(len(names))]
			if seen[nm] {
				continue
			}
			seen[nm] = true
			vs := optVariants(nm)
			opts = append(opts, vs[r.Intn(len(vs))])
		}
		be := "go"
		if r.Chance(1, 6) {
			// the fastgo backend accepts the same option list
			be = "fastgo"
			if r.Chance(1, 2) {
				opts = nil
			}
			if r.Chance(1, 3) {
				opts = append(opts, "no_fmt")
			}
		}
		out = append(out, config{Backend: be, Opts: opts, Rec: r.Chance(2, 3)})
	}
	return out
}

// ---- building command worlds ----

type cmdCase struct {
	Prog    *program
	Cfg     config
	OutDir  string
	Plugins []plugSpec // -p arguments in order
	Extra   []string   // extra argv before the IDL
	Env     map[string]string
	Second  *config    // a second -g
	Prelude [][]string // earlier invocations in the same process (argv each), see drv.runCmdWorld
	// PreludeWd[i] != "": earlier invocation i is sdk.RunThriftgoAsSDK(PreludeWd[i], nil, argv[1:]...);
	// SdkWd != "": the observed invocation is sdk.RunThriftgoAsSDK(SdkWd, nil, argv[1:]...) instead of main()
	PreludeWd []string
	SdkWd     string
	// PreludeRemove: paths removed after the earlier invocations (an obstacle repaired before the observed run)
	PreludeRemove []string
	// PreludeCwd[i] != "": the process stands in this directory while earlier invocation i runs (a host
	// program that changes its working directory between calls); it is back in Prog.Cwd afterwards
	PreludeCwd []string
	// PreludeWrite / PreludeMkdir: after the earlier invocations (and after PreludeRemove) these files are
	// (re)written and these directories made: what happened to the disk between two invocations of one process
	PreludeWrite map[string][]byte
	// SdkPlugin: the host hands an in-process plugin (name, parameters) to every invocation of the world
	SdkPlugin map[string]interface{}
	// Twins: command lines run by other callers of the process at the same time as the observed invocation
	Twins        [][]string
	PreludeMkdir []string
}

type plugSpec struct {
	Name    string
	Path    string // absolute simulated path ("" = looked up on PATH as thrift-gen-<name>)
	Opts    string // text after ':' ("" none)
	Script  interface{}
	Version string // thriftgo dependency version reported by build info ("" = no build info)
	Missing bool   // not installed
}

func (c *cmdCase) spec(seed uint64) *simrt.Spec {
	sp := &simrt.Spec{Kind: "cmd", Seed: seed, Cwd: c.Prog.Cwd, Files: c.Prog.Files, Env: map[string]string{"PATH": "/usr/bin:/plug/bin"}}
	for k, v := range c.Env {
		sp.Env[k] = v
	}
	args := []string{"thriftgo", "-g", c.Cfg.gArg()}
	if c.Second != nil {
		args = append(args, "-g", c.Second.gArg())
	}
	if c.Cfg.Rec {
		args = append(args, "-r")
	}
	out := c.OutDir
	if out == "" {
		out = "/work/out"
	}
	args = append(args, "-o", out)
	sp.Programs = map[string]json.RawMessage{}
	sp.BuildInfo = map[string]string{}
	for _, p := range c.Plugins {
		arg := p.Name
		path := p.Path
		if path != "" {
			arg += "=" + path
		} else {
			path = "/plug/bin/thrift-gen-" + p.Name
		}
		if p.Opts != "" {
			arg += ":" + p.Opts
		}
		args = append(args, "-p", arg)
		if !p.Missing {
			b, _ := json.Marshal(p.Script)
			sp.Programs[path] = b
			if p.Version != "" {
				sp.BuildInfo[path] = p.Version
			}
		}
	}
	args = append(args, c.Extra...)
	args = append(args, c.Prog.Main)
	sp.Args = args
	if len(c.Prelude) > 0 || c.SdkWd != "" || len(c.Twins) > 0 || c.SdkPlugin != nil {
		d := map[string]interface{}{}
		if len(c.Prelude) > 0 {
			d["prelude"] = c.Prelude
		}
		if len(c.PreludeWd) > 0 {
			d["prelude_wd"] = c.PreludeWd
		}
		if c.SdkWd != "" {
			d["sdk_wd"] = c.SdkWd
		}
		if len(c.PreludeRemove) > 0 {
			d["prelude_remove"] = c.PreludeRemove
		}
		if len(c.PreludeWrite) > 0 {
			d["prelude_write"] = c.PreludeWrite
		}
		if len(c.Twins) > 0 {
			d["twins"] = c.Twins
		}
		if c.SdkPlugin != nil {
			d["sdk_plugin"] = c.SdkPlugin
		}
		if len(c.PreludeMkdir) > 0 {
			d["prelude_mkdir"] = c.PreludeMkdir
		}
		if len(c.PreludeCwd) > 0 {
			d["prelude_cwd"] = c.PreludeCwd
			for _, dir := range c.PreludeCwd {
				if dir != "" {
					sp.Dirs = append(sp.Dirs, dir)
				}
			}
		}
		sp.Driver, _ = json.Marshal(d)
	}
	return sp
}

// outputs extracts what a run wrote: path (relative to the output directory
// when inside it) -> final content, from the file-system log and the disk.
func outputs(res *simrt.Result, outDir string) map[string]string {
	m := map[string]string{}
	for _, a := range res.FSLog {
		// a file is written by opening it for writing or by renaming a finished temporary onto it; a
		// temporary that is gone at the end is not output
		if (a.Op == "open-w" || a.Op == "rename") && a.Err == "" {
			p := a.Path
			if _, there := res.Disk[p]; !there {
				continue
			}
			if strings.HasPrefix(p, "/concurrent/") {
				continue // written by another caller of the process that generates at the same time
			}
			key := p
			if strings.HasPrefix(p, outDir+"/") {
				key = "$OUT/" + strings.TrimPrefix(p, outDir+"/")
			}
			m[key] = strings.ReplaceAll(string(res.Disk[p]), outDir, "$OUT")
		}
	}
	return m
}

func sortedKeys(m map[string]string) []string {
	ks := make([]string, 0, len(m))
	for k := range m {
		ks = append(ks, k)
	}
	sort.Strings(ks)
	return ks
}

var _ = time.Now

// accepted: the fault-free compiler took the program and wrote output without
// crashing (a recovered panic on a valid program is outside the claimed
// properties; such programs are discarded and counted).
func accepted(wr *worldRun) bool {
	return wr != nil && wr.Res != nil && wr.Res.Exit == 0 && wr.Res.ExitHow == "return" &&
		!strings.Contains(wr.Stdout, "Recovered from panic") && len(outputs(wr.Res, "/work/out")) > 0
}
