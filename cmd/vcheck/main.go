// vcheck is the orchestrator of the deterministic-simulation checks.
//
//	vcheck <property> [--tier quick|thorough] [--replay file]
//	vcheck build
//
// exit status: 0 the property held on everything explored (known findings are
// printed as KNOWN-FINDING lines), 1 with VIOLATION lines, 2 build / simulator
// trouble (never a violation).
package main

import (
	"flag"
	"fmt"
	"os"
	"os/signal"
	"strconv"
	"syscall"
)

func main() {
	if len(os.Args) < 2 {
		die(2, "usage: vcheck <property|build> [--tier quick|thorough] [--replay file]")
	}
	what := os.Args[1]
	fs := flag.NewFlagSet("vcheck", flag.ExitOnError)
	tier := fs.String("tier", "", "quick | thorough")
	replay := fs.String("replay", "", "replay file")
	seedFlag := fs.String("seed", "", "seed (default VERIF_SEED or 20260923)")
	fs.Parse(os.Args[2:])
	if *tier == "" {
		*tier = os.Getenv("VERIF_TIER")
	}
	if *tier == "" {
		*tier = "quick"
	}
	if *tier != "quick" && *tier != "thorough" {
		die(2, "bad tier %q", *tier)
	}
	seed := uint64(20260923)
	s := *seedFlag
	if s == "" {
		s = os.Getenv("VERIF_SEED")
	}
	if s != "" {
		v, err := strconv.ParseInt(s, 10, 64)
		if err != nil {
			u, err2 := strconv.ParseUint(s, 10, 64)
			if err2 != nil {
				die(2, "bad seed %q", s)
			}
			v = int64(u)
		}
		seed = uint64(v)
	}
	fmt.Printf("VERIF_SEED=%d tier=%s\n", seed, *tier)
	initTmp()
	sig := make(chan os.Signal, 1)
	signal.Notify(sig, syscall.SIGINT, syscall.SIGTERM)
	go func() { <-sig; cleanupTmp(); os.Exit(2) }()
	code := dispatch(what, *tier, seed, *replay)
	cleanupTmp()
	os.Exit(code)
}

func dispatch(what, tier string, seed uint64, replay string) int {
	if what == "build" {
		a := buildArtefacts()
		fmt.Println(a.Dir)
		return 0
	}
	a := buildArtefacts()
	if what == "bench-world" {
		return benchWorld(a, seed)
	}
	if what == "gen-test" {
		return genTest(a, 400, seed)
	}
	switch what {
	case "C19", "C12", "C14":
		lc := c19Check()
		if what == "C12" {
			lc = c12Check()
		}
		if what == "C14" {
			lc = c14Check()
		}
		if replay != "" {
			if rf := readReplay(replay); rf.Kind == "cmd:c19" {
				if ok, why := c19CmdReplayOK(a, rf); ok {
					fmt.Printf("VIOLATION property=C19 replay=%s\n  reproduced: %s\n  %s\n", replay, rf.Sig, rf.Msg)
					return 1
				} else {
					fmt.Printf("replay of %s did not reproduce: %s\n", replay, why)
					return 0
				}
			}
			if rf := readReplay(replay); rf.Kind == "lib:c14gc" {
				if ok, why := c14GCReplayOK(a, rf); ok {
					fmt.Printf("VIOLATION property=C14 replay=%s\n  reproduced: %s\n  %s\n", replay, rf.Sig, rf.Msg)
					return 1
				} else {
					fmt.Printf("replay of %s did not reproduce: %s\n", replay, why)
					return 0
				}
			}
			return lc.replayCmd(a, replay)
		}
		return lc.run(a, tier, seed)
	}
	if what == "C04" {
		return c04Check(a, tier, seed, replay)
	}
	if what == "C11" {
		return c11Check(a, tier, seed, replay)
	}
	if what == "C07" {
		return c07Check(a, tier, seed, replay)
	}
	die(2, "no check for %q", what)
	return 2
}
