package main

import (
	"encoding/json"
	"fmt"
	"time"

	"verif/sim/idlgen"
	"verif/sim/simrt"
)

func benchWorld(a *artefacts, seed uint64) int {
	bo := loadOptions(a)
	cfgs := genConfigs(bo, simrt.NewRand(seed), 100)
	for i := 0; i < 12; i++ {
		prog := genProgram(simrt.Mix(seed, uint64(i)), idlgen.Options{MaxFiles: 4, MaxDefs: 7})
		pair := &c07Pair{Prog: prog.Name, Files: prog.Files, Cwd: prog.Cwd, Main: prog.Main, Cfg: cfgs[i%len(cfgs)]}
		sp := pair.spec(c07BaseFor(nil))
		b, _ := json.Marshal(sp)
		t0 := time.Now()
		wr := runWorld(a, sp)
		d := time.Since(t0)
		if wr.Res != nil {
			rb, _ := json.Marshal(wr.Res)
			fmt.Printf("%-40s spec %6dB result %7dB steps %5d wall %v exit %d files %d\n", pair.Cfg.String(), len(b), len(rb), wr.Res.Steps, d, wr.Res.Exit, len(wr.Res.Disk))
		} else {
			fmt.Println("no result", wr.Err, d)
		}
	}
	return 0
}
