package main

import (
	"bytes"
	"context"
	"encoding/json"
	"fmt"
	"os"
	"os/exec"
	"path/filepath"
	"sort"
	"strings"
	"syscall"
	"time"

	"verif/sim/simrt"
)

// Real-process cross-check of the os/exec stub (property C11): the plain
// thriftgo binary built from /repo runs the real plugin binary built from
// /verif/plugsim with a fault script; the simulated run of the same script
// must agree on: exit status zero / non-zero, the set of files the plugin
// contributed, and whether the plugin was killed.  Only timing-insensitive
// cases are used (delay 0 or >= 20 x limit, limit 300 ms).  A disagreement is
// exit 2 (the stub is wrong), not a violation.

type xCase struct {
	Name   string
	Script map[string]interface{}
	Limit  string // --plugin-time-limit
	Second bool   // -g go -g fastgo
}

func c11xCases() []xCase {
	str := func(s string) *string { return &s }
	_ = str
	healthy := []map[string]interface{}{{"name": "plug/notes.txt", "content": "hello from the plugin\n"}, {"name": "plug/more.txt", "content": "@@thriftgo_insertion_point(p)x\n"}, {"ip": "p", "content": "PATCH"}}
	return []xCase{
		{Name: "healthy", Script: map[string]interface{}{"files": healthy, "warnings": []string{"warn-one"}}},
		{Name: "healthy-two-languages", Script: map[string]interface{}{"files": healthy}, Second: true},
		{Name: "healthy-stderr", Script: map[string]interface{}{"files": healthy, "stderr": "some text on stderr\n"}},
		{Name: "stdin-ignored", Script: map[string]interface{}{"read_stdin": 0, "warnings": []string{"did not read stdin"}}},
		{Name: "error-set", Script: map[string]interface{}{"files": healthy, "error": "plugin says no"}},
		{Name: "exit-3-after-output", Script: map[string]interface{}{"files": healthy, "exit": 3}},
		{Name: "exit-1-no-output", Script: map[string]interface{}{"no_response": true, "exit": 1, "read_stdin": 0}},
		{Name: "truncated", Script: map[string]interface{}{"files": healthy, "mangle": "truncate", "mangle_at": 17}},
		{Name: "random-bytes", Script: map[string]interface{}{"files": healthy, "mangle": "random"}},
		{Name: "empty-output", Script: map[string]interface{}{"files": healthy, "mangle": "empty"}},
		{Name: "trailing-garbage", Script: map[string]interface{}{"files": healthy, "mangle": "append"}},
		{Name: "slow-beyond-limit-before", Script: map[string]interface{}{"files": healthy, "delay_before_ns": int64(6 * time.Second)}, Limit: "300ms"},
		{Name: "slow-beyond-limit-after", Script: map[string]interface{}{"files": healthy, "delay_after_ns": int64(6 * time.Second)}, Limit: "300ms"},
		{Name: "fast-within-limit", Script: map[string]interface{}{"files": healthy}, Limit: "5s"},
		{Name: "no-limit", Script: map[string]interface{}{"files": healthy, "delay_before_ns": int64(400 * time.Millisecond)}, Limit: "0"},
	}
}

const xIDL = "include \"b.thrift\"\ninclude \"c.thrift\"\nnamespace go x.a\nstruct A { 1: b.B b, 2: c.C c }\nservice S { b.B f(1: c.C x) }\n"
const xIDLb = "include \"c.thrift\"\nnamespace go x.b\nstruct B { 1: c.C c }\n"
const xIDLc = "namespace go x.c\nstruct C { 1: i32 v }\n"

type xOutcome struct {
	ExitZero   bool
	PluginFile []string // files contributed by the plugin that exist afterwards (relative to out)
	Killed     bool
	Detail     string
}

func (o xOutcome) key() string {
	return fmt.Sprintf("exit0=%v files=%v killed=%v", o.ExitZero, o.PluginFile, o.Killed)
}

func xReal(a *artefacts, xc xCase, compress bool) (xOutcome, error) {
	d := tmpDir()
	defer os.RemoveAll(d)
	os.WriteFile(filepath.Join(d, "a.thrift"), []byte(xIDL), 0o644)
	os.WriteFile(filepath.Join(d, "b.thrift"), []byte(xIDLb), 0o644)
	os.WriteFile(filepath.Join(d, "c.thrift"), []byte(xIDLc), 0o644)
	notes := filepath.Join(d, "notes.json")
	sc := map[string]interface{}{}
	for k, v := range xc.Script {
		sc[k] = v
	}
	sc["notes"] = notes
	sb, _ := json.Marshal(sc)
	args := []string{"-g", "go"}
	if xc.Second {
		args = append(args, "-g", "fastgo")
	}
	args = append(args, "-r", "-o", filepath.Join(d, "out"), "-p", "plugsim="+a.Plug+":k=v,flag")
	if xc.Limit != "" {
		args = append(args, "--plugin-time-limit", xc.Limit)
	}
	args = append(args, "a.thrift")
	ctx, cancel := context.WithTimeout(context.Background(), 60*time.Second)
	defer cancel()
	cmd := exec.CommandContext(ctx, a.Real, args...)
	cmd.Dir = d
	cmd.Env = []string{"PATH=/usr/bin:/bin", "HOME=" + d, "PLUGSIM_SCRIPT=" + string(sb)}
	if compress {
		cmd.Env = append(cmd.Env, "THRIFTGO_PLUGIN_COMPRESS_INCLUDE=1")
	}
	var so, se bytes.Buffer
	cmd.Stdout, cmd.Stderr = &so, &se
	t0 := time.Now()
	err := cmd.Run()
	wall := time.Since(t0)
	if ctx.Err() != nil {
		return xOutcome{}, fmt.Errorf("real thriftgo did not end within 60s")
	}
	o := xOutcome{ExitZero: err == nil, Detail: clip(so.String()+se.String(), 300)}
	for _, f := range []string{"plug/notes.txt", "plug/more.txt"} {
		if _, err := os.Stat(filepath.Join(d, "out", f)); err == nil {
			o.PluginFile = append(o.PluginFile, f)
		}
	}
	sort.Strings(o.PluginFile)
	// was the plugin killed?  it records its pid at start and "done" just before exiting
	var n struct {
		Pid  int  `json:"pid"`
		Done bool `json:"done"`
	}
	if b, err := os.ReadFile(notes); err == nil {
		json.Unmarshal(b, &n)
	}
	if !n.Done {
		// the plugin did not reach its own exit: it was killed (possibly before it could even
		// record its pid, on a loaded machine); if the pid is known the process must be gone
		if n.Pid > 0 {
			time.Sleep(50 * time.Millisecond)
			if syscall.Kill(n.Pid, 0) == nil {
				time.Sleep(300 * time.Millisecond)
				if syscall.Kill(n.Pid, 0) == nil {
					b, _ := os.ReadFile(fmt.Sprintf("/proc/%d/stat", n.Pid))
					if !strings.Contains(string(b), ") Z ") {
						return o, fmt.Errorf("plugin pid %d is still running after thriftgo ended (wall %v)", n.Pid, wall)
					}
				}
			}
		}
		o.Killed = true
	}
	return o, nil
}

func xSim(a *artefacts, xc xCase, compress bool) (xOutcome, error) {
	c := &c11Case{Prog: "xcheck", Cwd: "/work", Main: "a.thrift", Cfg: config{Backend: "go", Rec: true}, Seed: 1, Limit: xc.Limit, Compress: compress,
		Files: map[string][]byte{"/work/a.thrift": []byte(xIDL), "/work/b.thrift": []byte(xIDLb), "/work/c.thrift": []byte(xIDLc)}}
	if xc.Second {
		c.Second = &config{Backend: "fastgo"}
	}
	sc := map[string]interface{}{"decode": true, "out_prefix": "$OUT"}
	for k, v := range xc.Script {
		sc[k] = v
	}
	if _, ok := sc["read_stdin"]; ok {
		sc["decode"] = false
		sc["out_prefix"] = ""
	}
	c.Plugins = []c11Plugin{{Name: "plugsim", ByPath: true, Opts: "k=v,flag", Script: sc, Version: "v0.4.2", Kind: xc.Name}}
	var cc c11Case
	if err := fromDoc(toDoc(c), &cc); err != nil {
		return xOutcome{}, err
	}
	var wr *worldRun
	var sp *simrt.Spec = cc.spec()
	wr = runWorld(a, sp)
	if wr.Res == nil {
		return xOutcome{}, fmt.Errorf("simulated run failed: %v", wr.Err)
	}
	o := xOutcome{ExitZero: wr.Res.Exit == 0, Detail: clip(wr.Stdout+wr.Stderr, 300)}
	for _, f := range []string{"plug/notes.txt", "plug/more.txt"} {
		if _, ok := wr.Res.Disk["/work/out/"+f]; ok {
			o.PluginFile = append(o.PluginFile, f)
		}
	}
	sort.Strings(o.PluginFile)
	for _, p := range wr.Res.Procs {
		if p.Killed {
			o.Killed = true
		}
	}
	return o, nil
}

func c11CrossCheck(a *artefacts, tier string, seed uint64) (bool, int, string) {
	if a.Plug == "" {
		return true, 0, "real plugin binary could not be built; cross-check skipped"
	}
	cases := c11xCases()
	if tier == "quick" {
		// the slow cases cost real seconds; keep one of them in the quick tier
		var q []xCase
		for _, c := range cases {
			if c.Name == "slow-beyond-limit-after" || c.Name == "no-limit" {
				continue
			}
			q = append(q, c)
		}
		cases = q
	}
	type res struct {
		name string
		err  error
		r, s xOutcome
	}
	out := make([]res, len(cases)*2)
	parallelMap(len(cases)*2, func(i int) {
		xc := cases[i/2]
		compress := i%2 == 1
		r, err := xReal(a, xc, compress)
		if err != nil {
			out[i] = res{name: xc.Name, err: err}
			return
		}
		s, err := xSim(a, xc, compress)
		out[i] = res{name: fmt.Sprintf("%s(compress=%v)", xc.Name, compress), err: err, r: r, s: s}
	})
	for _, o := range out {
		if o.err != nil {
			return false, len(out), fmt.Sprintf("%s: %v", o.name, o.err)
		}
		if o.r.key() != o.s.key() {
			return false, len(out), fmt.Sprintf("%s: real {%s} vs simulated {%s}; real output: %s; simulated output: %s", o.name, o.r.key(), o.s.key(), o.r.Detail, o.s.Detail)
		}
	}
	return true, len(out), fmt.Sprintf("%d scripts x {compression off,on}: real and simulated runs agree on exit status, contributed files and kill", len(cases))
}
