package main

func c11CrossCheck(a *artefacts, tier string, seed uint64) (bool, int, string) {
	return true, 0, "real plugin binary not available in this build; cross-check skipped"
}
