package main

func c19Check() *libCheck {
	return &libCheck{
		Prop: "C19", Kind: "c19", Level: "exploration", Extra: c19CmdPhase,
		QuickRuns: 200000, ThoroughRuns: 20000000, PerBatch: 12500,
		Rule: "each run = one seeded world: 0..40 jobs, parallelism 1..16, strategy random/PCT(d<=3)/run-to-block, a fault plan (failing post-process, mkdir/open/short-write faults, full disk, ENOTDIR), the real Generator.Persist + asyncPostProcess under the baton-passing scheduler; a case is non-trivial if the scheduler had >=2 runnable tasks at >=2 decisions, and distinct by (schedule fingerprint, event-log hash, jobs, parallelism)",
		Assumptions: []string{
			"interleavings are explored at the granularity of channel, WaitGroup, select, sync.Pool and simulated file-system operations (a data race between two such points is only visible through the content/ownership oracles)",
			"the simulated disk models the error behaviour of MkdirAll/WriteFile/OpenFile for the calls thriftgo makes; it is not the kernel",
			"a clean batch is evidence, not proof: schedules and fault plans are sampled",
		},
		RealStub: map[string]interface{}{
			"real": []string{"generator.Generator.Generate/Persist", "asyncPostProcess.OnFinished (dispatch loop, select, channels, WaitGroup)", "path resolution incl. dir_utils global wd", "the MkdirAll+WriteFile callback"},
			"stub": []string{"backend (scripted response and PostProcess)", "disk (simrt.simFS, multi-step writes)", "goroutine scheduling, channels, select, WaitGroup (emulated by simrt, chosen by the seeded scheduler)", "GOMAXPROCS (per-run knob)"},
		},
	}
}

func c12Check() *libCheck {
	return &libCheck{
		Prop: "C12", Kind: "c12", Level: "exploration",
		QuickRuns: 200000, ThoroughRuns: 10000000, PerBatch: 12500,
		Rule: "each run = one seeded history of 1..10 Feed calls by up to 5 parties (named files, unnamed patches, named patches, repeated names with equal and different content, names shaped like renamed siblings, markers occurring 0..n times, decoy markers, patches for absent points, a leading unnamed patch) on a fresh real FileManager followed by BuildResponse, with the replacer's map order permuted by the seam; checked against the relational reference model; non-trivial = at least 2 submitted items; distinct by the full history",
		Assumptions: []string{
			"histories outside the domain the statement defines (markers inside patch text, named patches aimed at a name in conflict or not yet existing) are generated rarely and not judged",
			"a clean batch is evidence, not proof",
		},
		RealStub: map[string]interface{}{
			"real": []string{"generator.FileManager.Feed", "FileManager.BuildResponse", "insertionPointReplacer"},
			"stub": []string{"the submitting parties (scripted histories)", "map iteration order in insertionPointReplacer.Replace (permuted by the seam)"},
		},
	}
}

func c14Check() *libCheck {
	return &libCheck{
		Prop: "C14", Kind: "c14", Level: "exploration", Extra: c14GCPhase,
		QuickRuns: 60000, ThoroughRuns: 5000000, PerBatch: 3750,
		Rule: "each run = one seeded world: 1..4 masks built by the library from generated valid paths over a descriptor obtained from RegisterAST (white and black list), checked for stable JSON text under permuted map iteration, JSON round trip on a probe set, then 1..6 simulated callers interleaving Marshal / Unmarshal / MarshalJSON / UnmarshalJSON / Unmarshal-through-a-reused-buffer on shared masks under the scheduler (yields at every sync.Map and sync.Pool operation, emulated pool), then corrupted documents and path strings; two descriptor universes; a separate phase of short-lived masks with garbage collections between requests; non-trivial = a mask was built and (>=2 scheduling decisions or >=1 corrupted input); distinct by (schedule fingerprint, workload)",
		Assumptions: []string{
			"PARTIAL: the JSON transport and cache facet, plus path membership of star-free masks against a small independent path-set model and 'valid star-free paths must build'; the answers of Field/Int/Str against a model, masks with '*' and independence of path order are a pure function of the path list and are not decided here",
			"the round-trip oracle compares the answers of the original and the round-tripped mask on a probe set derived from the schema (field ids incl. 63, >63 and absent ones, list indices, int keys incl. >2^53, string keys incl. escapes and control characters, All/Exist/IsBlack/Type)",
			"the memory-reclamation phase uses the real collector and allocator: it is seeded but not replayable to the event, only to the class",
			"a clean batch is evidence, not proof",
		},
		RealStub: map[string]interface{}{
			"real": []string{"fieldmask.NewFieldMask", "FieldMask.MarshalJSON / UnmarshalJSON", "fieldmask.Marshal / Unmarshal (sync.Map caches)", "query API", "thrift_reflection.RegisterAST, parser.ParseString"},
			"stub": []string{"callers (scripted operation lists run as simulated tasks)", "sync.Pool (emulated: newest / oldest / New chosen by the seed)", "scheduling points before every sync.Map and pool operation", "map iteration order"},
		},
	}
}
