package main

import (
	"crypto/sha256"
	"encoding/hex"
	"fmt"
	"io"
	"os"
	"os/exec"
	"path/filepath"
	"sort"
	"strings"
	"syscall"
	"time"
)

const (
	verifDir = "/verif"
	cacheDir = "/verif/.cache"
)

// repoDir is /repo; VERIF_REPO points the checks at another checkout (used
// only for trying seeded changes in scratch worktrees without touching /repo;
// the registered commands never set it).
var repoDir = func() string {
	if d := os.Getenv("VERIF_REPO"); d != "" {
		return d
	}
	return "/repo"
}()

type artefacts struct {
	Dir    string
	Sim    string // instrumented thriftgo
	Real   string // plain build of /repo's working tree
	Plug   string // real plugin binary for the os/exec cross-check ("" if not built)
	Report string
	Hash   string
}

func setGoEnv() {
	os.Setenv("GOFLAGS", "-mod=mod")
	os.Setenv("GOPROXY", "off")
	os.Setenv("GOSUMDB", "off")
	os.Setenv("GOTOOLCHAIN", "local")
	os.Setenv("CGO_ENABLED", "0")
}

func hashTree(h io.Writer, root string, skip func(rel string, isDir bool) bool) error {
	var files []string
	err := filepath.Walk(root, func(p string, fi os.FileInfo, err error) error {
		if err != nil {
			return err
		}
		rel, _ := filepath.Rel(root, p)
		if skip(rel, fi.IsDir()) {
			if fi.IsDir() {
				return filepath.SkipDir
			}
			return nil
		}
		if fi.Mode().IsRegular() {
			files = append(files, p)
		}
		return nil
	})
	if err != nil {
		return err
	}
	sort.Strings(files)
	for _, f := range files {
		b, err := os.ReadFile(f)
		if err != nil {
			return err
		}
		fmt.Fprintf(h, "%s\x00%d\x00", f, len(b))
		h.Write(b)
	}
	return nil
}

func treeHash() (string, error) {
	h := sha256.New()
	if err := hashTree(h, repoDir, func(rel string, isDir bool) bool {
		return rel == ".git" || strings.HasPrefix(rel, ".git/")
	}); err != nil {
		return "", err
	}
	fmt.Fprintf(h, "heapwrites=%s\x00", os.Getenv("VERIF_HEAPWRITES"))
	for _, d := range []string{"sim", "plugsim"} {
		if _, err := os.Stat(filepath.Join(verifDir, d)); err != nil {
			continue
		}
		if err := hashTree(h, filepath.Join(verifDir, d), func(rel string, isDir bool) bool { return false }); err != nil {
			return "", err
		}
	}
	return hex.EncodeToString(h.Sum(nil))[:24], nil
}

func run(dir string, name string, args ...string) (string, error) {
	cmd := exec.Command(name, args...)
	cmd.Dir = dir
	out, err := cmd.CombinedOutput()
	return string(out), err
}

// buildArtefacts rebuilds (or reuses) the artefacts for /repo's current working tree.
// Any trouble is build trouble: exit status 2, never a violation.
func buildArtefacts() *artefacts {
	setGoEnv()
	os.MkdirAll(cacheDir, 0o755)
	lock, err := os.OpenFile(filepath.Join(cacheDir, "lock"), os.O_CREATE|os.O_RDWR, 0o644)
	if err != nil {
		die(2, "cache lock: %v", err)
	}
	defer lock.Close()
	if err := syscall.Flock(int(lock.Fd()), syscall.LOCK_EX); err != nil {
		die(2, "flock: %v", err)
	}
	defer syscall.Flock(int(lock.Fd()), syscall.LOCK_UN)

	hash, err := treeHash()
	if err != nil {
		die(2, "hash tree: %v", err)
	}
	dir := filepath.Join(cacheDir, hash)
	a := &artefacts{Dir: dir, Sim: filepath.Join(dir, "thriftgo-sim"), Real: filepath.Join(dir, "thriftgo-real"),
		Plug: filepath.Join(dir, "thrift-gen-plugsim"), Report: filepath.Join(dir, "vinstr-report.json"), Hash: hash}
	if _, err := os.Stat(filepath.Join(dir, "ok")); err == nil {
		os.Chtimes(dir, time.Now(), time.Now())
		if _, err := os.Stat(a.Plug); err != nil {
			a.Plug = ""
		}
		return a
	}
	os.RemoveAll(dir)
	os.MkdirAll(dir, 0o755)
	t0 := time.Now()

	vinstr := filepath.Join(verifDir, "bin", "vinstr")
	if out, err := run(verifDir, "go", "build", "-o", vinstr, "./sim/vinstr"); err != nil {
		die(2, "build vinstr: %v\n%s", err, out)
	}

	scratch, err := os.MkdirTemp("", "vsim")
	if err != nil {
		die(2, "mktemp: %v", err)
	}
	scratchDirs = append(scratchDirs, scratch)
	defer os.RemoveAll(scratch)
	if out, err := run("/", "rsync", "-a", "--exclude", ".git", repoDir+"/", scratch+"/"); err != nil {
		die(2, "copy tree: %v\n%s", err, out)
	}
	// plain build first (also proves the tree compiles at all)
	if out, err := run(scratch, "go", "build", "-o", a.Real, "."); err != nil {
		die(2, "the tree under test does not build: %v\n%s", err, out)
	}
	for _, pkg := range []string{"simrt", "drv", "idlgen", "c12model"} {
		src := filepath.Join(verifDir, "sim", pkg)
		if _, err := os.Stat(src); err != nil {
			continue
		}
		dst := filepath.Join(scratch, "internal", "verifsim", pkg)
		os.MkdirAll(dst, 0o755)
		ents, _ := os.ReadDir(src)
		for _, e := range ents {
			if e.IsDir() || !strings.HasSuffix(e.Name(), ".go") || strings.HasSuffix(e.Name(), "_test.go") {
				continue
			}
			b, _ := os.ReadFile(filepath.Join(src, e.Name()))
			// packages shared with the orchestrator import each other through the /verif module path
			s := strings.ReplaceAll(string(b), "\"verif/sim/", "\"github.com/cloudwego/thriftgo/internal/verifsim/")
			os.WriteFile(filepath.Join(dst, e.Name()), []byte(s), 0o644)
		}
	}
	if out, err := run(scratch, vinstr, "-dir", scratch, "-report", a.Report); err != nil {
		die(2, "vinstr: %v\n%s", err, out)
	}
	if out, err := run(scratch, "go", "build", "-o", a.Sim, "."); err != nil {
		die(2, "instrumented build failed: %v\n%s", err, out)
	}
	// real plugin for the os/exec cross-check (optional)
	if _, err := os.Stat(filepath.Join(verifDir, "plugsim", "main.go")); err == nil {
		ps, err := os.MkdirTemp("", "vplug")
		if err == nil {
			scratchDirs = append(scratchDirs, ps)
			defer os.RemoveAll(ps)
			run("/", "rsync", "-a", filepath.Join(verifDir, "plugsim")+"/", ps+"/")
			// the replace target must be the pristine copy of the tree under test (not the rewritten one)
			pristine, _ := os.MkdirTemp("", "vpristine")
			scratchDirs = append(scratchDirs, pristine)
			defer os.RemoveAll(pristine)
			run("/", "rsync", "-a", "--exclude", ".git", repoDir+"/", pristine+"/")
			gm, _ := os.ReadFile(filepath.Join(ps, "go.mod"))
			os.WriteFile(filepath.Join(ps, "go.mod"), []byte(strings.ReplaceAll(string(gm), "/repo", pristine)), 0o644)
			gs, _ := os.ReadFile(filepath.Join(repoDir, "go.sum"))
			os.WriteFile(filepath.Join(ps, "go.sum"), gs, 0o644)
			if out, err := run(ps, "go", "build", "-o", a.Plug, "."); err != nil {
				fmt.Fprintf(os.Stderr, "vcheck: real plugin not built (cross-check skipped): %v\n%s\n", err, out)
				a.Plug = ""
			}
		}
	} else {
		a.Plug = ""
	}
	os.WriteFile(filepath.Join(dir, "ok"), []byte(time.Since(t0).String()), 0o644)
	fmt.Fprintf(os.Stderr, "vcheck: built artefacts for tree %s in %.1fs\n", hash, time.Since(t0).Seconds())

	// cache eviction: never remove an entry used within the last three hours (a long run may
	// still be executing its binary); beyond that keep the four most recent ones
	ents, _ := os.ReadDir(cacheDir)
	type ent struct {
		name string
		t    time.Time
	}
	var es []ent
	for _, e := range ents {
		if e.IsDir() && e.Name() != hash && e.Name() != "tmp" {
			fi, err := e.Info()
			if err == nil {
				es = append(es, ent{e.Name(), fi.ModTime()})
			}
		}
	}
	sort.Slice(es, func(i, j int) bool { return es[i].t.After(es[j].t) })
	for i, e := range es {
		if i >= 4 && time.Since(e.t) > 3*time.Hour {
			os.RemoveAll(filepath.Join(cacheDir, e.name))
		}
	}
	return a
}
