package main

import (
	"bytes"
	"context"
	"encoding/json"
	"fmt"
	"os"
	"os/exec"
	"path/filepath"
	"runtime"
	"sort"
	"strings"
	"sync"
	"time"

	"verif/sim/simrt"
)

// scratchDirs are removed on every exit path, also by die().
var scratchDirs []string

// violationsPrinted counts the VIOLATION lines already printed (each was verified by a replay in a
// fresh process first).  Trouble after that does not take them back: the run ends with status 1.
var violationsPrinted int

func die(code int, f string, a ...interface{}) {
	fmt.Fprintf(os.Stderr, "vcheck: "+f+"\n", a...)
	if code == 2 && violationsPrinted > 0 {
		fmt.Fprintf(os.Stderr, "vcheck: %d verified violation(s) were reported before this trouble; ending with status 1\n", violationsPrinted)
		code = 1
	}
	cleanupTmp()
	for _, d := range scratchDirs {
		os.RemoveAll(d)
	}
	os.Exit(code)
}

var workers = func() int {
	n := runtime.NumCPU()
	if n > 16 {
		n = 16
	}
	if n < 1 {
		n = 1
	}
	return n
}()

var tmpRoot string

func initTmp() {
	d, err := os.MkdirTemp("", "vcheck")
	if err != nil {
		die(2, "mktemp: %v", err)
	}
	tmpRoot = d
}

func cleanupTmp() {
	if tmpRoot != "" {
		os.RemoveAll(tmpRoot)
	}
}

var tmpSeq struct {
	sync.Mutex
	n int
}

func tmpDir() string {
	tmpSeq.Lock()
	tmpSeq.n++
	n := tmpSeq.n
	tmpSeq.Unlock()
	d := filepath.Join(tmpRoot, fmt.Sprint(n))
	os.MkdirAll(d, 0o755)
	return d
}

// ---- command worlds: one process per world ----

type worldRun struct {
	Res      *simrt.Result
	Stdout   string
	Stderr   string
	Watchdog bool
	Err      error // simulator / process trouble (exit 2 material)
	Wall     time.Duration
}

var realWallLimit = 60 * time.Second

// runWorld runs one command world; a watchdog hit is retried once with three
// times the limit, so that a loaded machine is not mistaken for a hang.
func runWorld(a *artefacts, spec *simrt.Spec) *worldRun {
	wr := runWorldOnce(a, spec, realWallLimit)
	if wr.Watchdog {
		wr = runWorldOnce(a, spec, 3*realWallLimit)
	}
	return wr
}

func runWorldOnce(a *artefacts, spec *simrt.Spec, limit time.Duration) *worldRun {
	d := tmpDir()
	defer os.RemoveAll(d)
	sp := filepath.Join(d, "spec.json")
	rp := filepath.Join(d, "res.json")
	b, err := json.Marshal(spec)
	if err != nil {
		return &worldRun{Err: err}
	}
	if err := os.WriteFile(sp, b, 0o644); err != nil {
		return &worldRun{Err: err}
	}
	ctx, cancel := context.WithTimeout(context.Background(), limit)
	defer cancel()
	cmd := exec.CommandContext(ctx, a.Sim)
	cmd.Env = []string{"VERIF_WORLD=" + sp, "VERIF_RESULT=" + rp, "GOMAXPROCS=" + worldGOMAXPROCS(spec), "GOGC=400", "HOME=/nonexistent", "PATH=/nonexistent"}
	cmd.Dir = d
	var so, se bytes.Buffer
	cmd.Stdout, cmd.Stderr = &so, &se
	t0 := time.Now()
	err = cmd.Run()
	wr := &worldRun{Stdout: afterBoundary(so.String()), Stderr: afterBoundary(se.String()), Wall: time.Since(t0)}
	if ctx.Err() != nil {
		wr.Watchdog = true
		return wr
	}
	rb, rerr := os.ReadFile(rp)
	if rerr != nil {
		wr.Err = fmt.Errorf("simulated process ended without a result (%v): %s", err, clip(wr.Stderr, 2000))
		return wr
	}
	var res simrt.Result
	if jerr := json.Unmarshal(rb, &res); jerr != nil {
		wr.Err = fmt.Errorf("bad result: %v", jerr)
		return wr
	}
	wr.Res = &res
	return wr
}

func clip(s string, n int) string {
	if len(s) > n {
		return s[:n/2] + "\n…\n" + s[len(s)-n/2:]
	}
	return s
}

// parallelMap runs f(i) for i in [0,n) on the worker pool.
func parallelMap(n int, f func(i int)) {
	var wg sync.WaitGroup
	ch := make(chan int)
	k := workers
	if k > n {
		k = n
	}
	for w := 0; w < k; w++ {
		wg.Add(1)
		go func() {
			defer wg.Done()
			for i := range ch {
				f(i)
			}
		}()
	}
	for i := 0; i < n; i++ {
		ch <- i
	}
	close(ch)
	wg.Wait()
}

// ---- library batches ----

type batchReq struct {
	Kind          string        `json:"kind"`
	Tier          string        `json:"tier"`
	Base          uint64        `json:"base"`
	From          uint64        `json:"from"`
	To            uint64        `json:"to"`
	Specs         []*simrt.Spec `json:"specs,omitempty"`
	MaxViolations int           `json:"max_violations"`
	KeepLog       bool          `json:"keep_log,omitempty"`
	Samples       int           `json:"samples,omitempty"`
	Hashes        bool          `json:"hashes,omitempty"`
	KnownSigRe    []string      `json:"known_sig_re,omitempty"`
	gomaxprocs    int
}

type outcome struct {
	Class      string          `json:"class,omitempty"`
	Msg        string          `json:"msg,omitempty"`
	Sig        string          `json:"sig,omitempty"`
	LogHash    string          `json:"log_hash"`
	SchedFP    string          `json:"sched_fp"`
	Branching  int             `json:"branching"`
	Nontrivial bool            `json:"nontrivial"`
	Detail     json.RawMessage `json:"detail,omitempty"`
	Result     *simrt.Result   `json:"result,omitempty"`
}

type violation struct {
	Spec    *simrt.Spec `json:"spec"`
	Class   string      `json:"class"`
	Msg     string      `json:"msg"`
	Sig     string      `json:"sig"`
	LogHash string      `json:"log_hash"`
	Base    uint64      `json:"base"`
	From    uint64      `json:"from"`
	Index   uint64      `json:"index"`
}

type batchRes struct {
	Kind       string            `json:"kind"`
	Runs       int               `json:"runs"`
	Violations []violation       `json:"violations,omitempty"`
	Counters   map[string]int    `json:"counters"`
	CaseKeys   []uint64          `json:"case_keys"`
	States     []string          `json:"states"`
	SimNanos   int64             `json:"sim_ns"`
	Steps      int64             `json:"steps"`
	Samples    []json.RawMessage `json:"samples,omitempty"`
	Outcomes   []*outcome        `json:"outcomes,omitempty"`
	Hashes     []string          `json:"hashes,omitempty"`
	Known      []violation       `json:"known,omitempty"`
	KnownHits  int               `json:"known_hits,omitempty"`
}

func runBatch(a *artefacts, req *batchReq, limit time.Duration) (*batchRes, error) {
	d := tmpDir()
	defer os.RemoveAll(d)
	bp := filepath.Join(d, "batch.json")
	rp := filepath.Join(d, "res.json")
	b, _ := json.Marshal(req)
	if err := os.WriteFile(bp, b, 0o644); err != nil {
		return nil, err
	}
	ctx, cancel := context.WithTimeout(context.Background(), limit)
	defer cancel()
	cmd := exec.CommandContext(ctx, a.Sim)
	gmp := req.gomaxprocs
	if gmp <= 0 {
		gmp = 2
	}
	cmd.Env = []string{"VERIF_BATCH=" + bp, "VERIF_RESULT=" + rp, fmt.Sprintf("GOMAXPROCS=%d", gmp), "HOME=/nonexistent", "PATH=/nonexistent"}
	cmd.Dir = d
	var se bytes.Buffer
	cmd.Stderr = &se
	err := cmd.Run()
	if ctx.Err() != nil {
		return nil, fmt.Errorf("batch watchdog (%v) expired: %s", limit, clip(se.String(), 2000))
	}
	rb, rerr := os.ReadFile(rp)
	if rerr != nil {
		return nil, fmt.Errorf("batch ended without a result (%v): %s", err, clip(se.String(), 4000))
	}
	var res batchRes
	if jerr := json.Unmarshal(rb, &res); jerr != nil {
		return nil, jerr
	}
	return &res, nil
}

// merged aggregates batch results.
type merged struct {
	Runs       int
	Known      []violation // first world of each listed known finding, per batch
	KnownHits  int
	Violations []violation
	Counters   map[string]int
	caseKeys   map[uint64]struct{}
	states     map[string]struct{}
	SimNanos   int64
	Steps      int64
	Samples    []json.RawMessage
}

func newMerged() *merged {
	return &merged{Counters: map[string]int{}, caseKeys: map[uint64]struct{}{}, states: map[string]struct{}{}}
}

func (m *merged) add(r *batchRes) {
	m.Runs += r.Runs
	m.Violations = append(m.Violations, r.Violations...)
	m.KnownHits += r.KnownHits
	for _, k := range r.Known {
		dup := false
		for _, x := range m.Known {
			if x.Sig == k.Sig {
				dup = true
			}
		}
		if !dup {
			m.Known = append(m.Known, k)
		}
	}
	for k, v := range r.Counters {
		m.Counters[k] += v
	}
	for _, k := range r.CaseKeys {
		m.caseKeys[k] = struct{}{}
	}
	for _, s := range r.States {
		m.states[s] = struct{}{}
	}
	m.SimNanos += r.SimNanos
	m.Steps += r.Steps
	if len(m.Samples) < 4 {
		m.Samples = append(m.Samples, r.Samples...)
	}
}

// runBatches fans a seed range out over the worker pool.
func runBatches(a *artefacts, kind, tier string, base uint64, total uint64, per uint64, deadline time.Time, knownSigRe ...string) (*merged, error) {
	m := newMerged()
	var mu sync.Mutex
	var firstErr error
	n := int((total + per - 1) / per)
	stop := false
	parallelMap(n, func(i int) {
		mu.Lock()
		if stop || firstErr != nil || time.Now().After(deadline) {
			mu.Unlock()
			return
		}
		mu.Unlock()
		from := uint64(i) * per
		to := from + per
		if to > total {
			to = total
		}
		req := &batchReq{Kind: kind, Tier: tier, Base: base, From: from, To: to, MaxViolations: 3, KnownSigRe: knownSigRe}
		if i == 0 {
			req.Samples = 3
		}
		r, err := runBatch(a, req, 20*time.Minute)
		mu.Lock()
		defer mu.Unlock()
		if err != nil {
			if firstErr == nil {
				firstErr = err
			}
			return
		}
		m.add(r)
		if len(m.Violations) >= 6 {
			stop = true
		}
	})
	sort.Slice(m.Violations, func(i, j int) bool { return m.Violations[i].Spec.Seed < m.Violations[j].Spec.Seed })
	sort.Slice(m.Known, func(i, j int) bool { return m.Known[i].Sig < m.Known[j].Sig })
	return m, firstErr
}

// runSpecs evaluates explicit specs of a library driver (replay, shrinking, determinism).
func runSpecs(a *artefacts, kind string, specs []*simrt.Spec, keep bool) ([]*outcome, error) {
	r, err := runBatch(a, &batchReq{Kind: kind, Specs: specs, KeepLog: keep}, 5*time.Minute)
	if err != nil {
		return nil, err
	}
	if len(r.Outcomes) != len(specs) {
		return nil, fmt.Errorf("batch returned %d outcomes for %d specs", len(r.Outcomes), len(specs))
	}
	return r.Outcomes, nil
}

// worldGOMAXPROCS: the real parallelism of a simulated process does not matter
// (one task runs at a time); 1 is cheapest.  The determinism self-tests vary it
// through the label of the spec.
func worldGOMAXPROCS(sp *simrt.Spec) string {
	switch sp.Label {
	case "gomaxprocs=4":
		return "4"
	case "gomaxprocs=16":
		return "16"
	}
	return "1"
}

// boundaryMark is written to stdout and stderr by the driver of a session world when the earlier
// invocations are over: what the observed invocation printed is what follows the last mark.
const boundaryMark = "\x00verif-session-boundary\x00\n"

func afterBoundary(s string) string {
	if i := strings.LastIndex(s, boundaryMark); i >= 0 {
		return s[i+len(boundaryMark):]
	}
	return s
}
