package main

import (
	"bytes"
	"encoding/json"
	"sort"
	"strconv"
	"sync"
)

// Generic minimiser over the JSON form of a spec: drop array elements (in
// chunks), drop optional object members, move numbers towards 0, clear
// booleans.  A candidate is kept if the predicate (same violation class
// reproduces) still holds.  Specs are written so that any such edit is still a
// well-formed spec.

func deepCopy(v interface{}) interface{} {
	switch x := v.(type) {
	case map[string]interface{}:
		m := make(map[string]interface{}, len(x))
		for k, e := range x {
			m[k] = deepCopy(e)
		}
		return m
	case []interface{}:
		s := make([]interface{}, len(x))
		for i, e := range x {
			s[i] = deepCopy(e)
		}
		return s
	}
	return v
}

type shrinkOpts struct {
	Protect    map[string]bool // object keys never touched (neither removed nor descended into)
	NoDrop     map[string]bool // keys that may be descended into but not removed
	Budget     int
	StringKeys map[string]bool // string members that may be cleared / shortened
}

// shrinkDoc greedily applies edits while pred holds; candidates are evaluated
// in parallel groups, the first (in enumeration order) that holds is taken.
func shrinkDoc(doc interface{}, o *shrinkOpts, pred func(interface{}) bool) (interface{}, int) {
	evals := 0
	if o.Budget <= 0 {
		o.Budget = 600
	}
	for evals < o.Budget {
		// enumerate candidates of the current document
		var cands []interface{}
		editsSnap(doc, o, func(v interface{}) { cands = append(cands, deepCopy(v)) })
		if len(cands) == 0 {
			break
		}
		accepted := false
		for i := 0; i < len(cands) && evals < o.Budget && !accepted; i += workers {
			j := i + workers
			if j > len(cands) {
				j = len(cands)
			}
			ok := make([]bool, j-i)
			var wg sync.WaitGroup
			for k := i; k < j; k++ {
				wg.Add(1)
				go func(k int) {
					defer wg.Done()
					ok[k-i] = pred(cands[k])
				}(k)
			}
			wg.Wait()
			evals += j - i
			for k := range ok {
				if ok[k] {
					doc = cands[i+k]
					accepted = true
					break
				}
			}
		}
		if !accepted {
			break
		}
	}
	return doc, evals
}

// editsSnap calls emit with the whole edited document for every candidate.
func editsSnap(doc interface{}, o *shrinkOpts, emit func(interface{})) {
	var root interface{} = doc
	var walk func(cur interface{}, set func(interface{}), key string)
	walk = func(cur interface{}, set func(interface{}), key string) {
		switch x := cur.(type) {
		case []interface{}:
			n := len(x)
			for size := n; size >= 1; size /= 2 {
				for start := 0; start+size <= n; start += size {
					nx := make([]interface{}, 0, n-size)
					nx = append(nx, x[:start]...)
					nx = append(nx, x[start+size:]...)
					set(nx)
					emit(root)
				}
				if size == 1 {
					break
				}
			}
			set(x)
			if n <= 64 {
				for i := range x {
					i := i
					walk(x[i], func(v interface{}) {
						nx := append([]interface{}(nil), x...)
						nx[i] = v
						set(nx)
					}, key)
					set(x)
				}
			}
		case map[string]interface{}:
			keys := make([]string, 0, len(x))
			for k := range x {
				keys = append(keys, k)
			}
			sort.Strings(keys)
			for _, k := range keys {
				if o.Protect[k] || o.NoDrop[k] {
					continue
				}
				nx := make(map[string]interface{}, len(x))
				for kk, vv := range x {
					if kk != k {
						nx[kk] = vv
					}
				}
				set(nx)
				emit(root)
				set(x)
			}
			for _, k := range keys {
				if o.Protect[k] {
					continue
				}
				k := k
				walk(x[k], func(v interface{}) {
					nx := make(map[string]interface{}, len(x))
					for kk, vv := range x {
						nx[kk] = vv
					}
					nx[k] = v
					set(nx)
				}, k)
				set(x)
			}
		case json.Number:
			if n, err := strconv.ParseInt(string(x), 10, 64); err == nil && n != 0 {
				set(json.Number("0"))
				emit(root)
				if n > 1 || n < -1 {
					set(json.Number(strconv.FormatInt(n/2, 10)))
					emit(root)
				}
				if n >= 1 {
					set(json.Number(strconv.FormatInt(n-1, 10)))
					emit(root)
				}
				set(x)
			}
		case bool:
			if x {
				set(false)
				emit(root)
				set(x)
			}
		case string:
			if o.StringKeys[key] && x != "" {
				set("")
				emit(root)
				if len(x) > 1 {
					set(x[:len(x)/2])
					emit(root)
				}
				set(x)
			}
		}
	}
	walk(root, func(v interface{}) { root = v }, "")
}

func toDoc(v interface{}) interface{} {
	b, _ := json.Marshal(v)
	var d interface{}
	dec := json.NewDecoder(bytes.NewReader(b))
	dec.UseNumber()
	dec.Decode(&d)
	return d
}

func fromDoc(d interface{}, out interface{}) error {
	b, err := json.Marshal(d)
	if err != nil {
		return err
	}
	return json.Unmarshal(b, out)
}
