package main

import (
	"encoding/json"
	"fmt"
	"os"
	"path/filepath"
	"regexp"
	"sort"
	"strings"
	"sync"
	"time"

	"verif/sim/idlgen"
	"verif/sim/simrt"
)

// C07 — code generation is deterministic.  The real main() runs in
// thriftgo-sim, one process per run; K runs of one (program, configuration)
// pair differ only in what the statement says must not matter.

type c07Variant struct {
	Name        string            `json:"name"`
	MapMode     string            `json:"map_mode,omitempty"`
	MapSites    map[string]string `json:"map_sites,omitempty"`
	MapSeed     uint64            `json:"map_seed,omitempty"`
	Strategy    string            `json:"strategy,omitempty"`
	SchedSeed   uint64            `json:"sched_seed,omitempty"`
	Parallelism int               `json:"parallelism,omitempty"`
	OutDir      string            `json:"out_dir,omitempty"`
	Stale       bool              `json:"stale,omitempty"`
	PoolSeed    uint64            `json:"pool_seed,omitempty"`
	Prelude     [][]string        `json:"prelude,omitempty"`      // earlier invocations in the same process
	PreludeWd   []string          `json:"prelude_wd,omitempty"`   // earlier invocation i made through sdk.RunThriftgoAsSDK with this working directory
	Clock       int64             `json:"clock_offset,omitempty"` // the run starts this many nanoseconds after the baseline's wall-clock instant, with another pid
	ExtraFiles  map[string][]byte `json:"extra_files,omitempty"`  // further input files of the world (a twin of the program for an earlier invocation)
	Block       string            `json:"block,omitempty"`        // a regular file where an earlier invocation must create a directory; removed before the observed invocation
	PreludeCwd  []string          `json:"prelude_cwd,omitempty"`  // the directory the process stands in during earlier invocation i
	RelOut      string            `json:"rel_out,omitempty"`      // the observed invocation names its output directory relative to the working directory (-o RelOut); RelOutAbs is where that is
	RelOutAbs   string            `json:"rel_out_abs,omitempty"`
	Twins       int               `json:"twins,omitempty"`       // that many other callers of the process generate the same program (own Generator, own backends, own output directory) at the same time
	SlowPlugin  int               `json:"slow_plugin,omitempty"` // 1 / 2: the first / second plugin takes a few (simulated) seconds before it answers; how fast a plugin is must not show in the output
	SdkWd       string            `json:"sdk_wd,omitempty"`      // the observed invocation is sdk.RunThriftgoAsSDK(SdkWd, ...); its baseline is the same call with nothing before it
}

// c07BaseFor: the run a variant is compared with.
func c07BaseFor(v *c07Variant) *c07Variant {
	b := &c07Variant{Name: "baseline", MapMode: "sorted", Strategy: "rtb", Parallelism: 1}
	if v != nil && v.SdkWd != "" {
		b.Name, b.SdkWd = "sdk-baseline", v.SdkWd
		b.RelOut, b.RelOutAbs = v.RelOut, v.RelOutAbs
	}
	return b
}

type c07Pair struct {
	Prog     string            `json:"program"`
	Files    map[string][]byte `json:"files"`
	Cwd      string            `json:"cwd"`
	Main     string            `json:"main"`
	Cfg      config            `json:"config"`
	Plugin   bool              `json:"plugin"`
	PlugVer  string            `json:"plugin_version,omitempty"`
	Compress bool              `json:"compress"`
	Stale    map[string][]byte `json:"stale_files,omitempty"`
	Extra    []string          `json:"extra_args,omitempty"`    // e.g. -i /incB
	PreInv   [][]string        `json:"prelude_extra,omitempty"` // additional earlier invocations for the session variant
}

func (p *c07Pair) spec(v *c07Variant) *simrt.Spec {
	cc := &cmdCase{Prog: &program{Files: p.Files, Cwd: p.Cwd, Main: p.Main}, Cfg: p.Cfg, OutDir: v.OutDir, Env: map[string]string{}}
	if p.Compress {
		cc.Env["THRIFTGO_PLUGIN_COMPRESS_INCLUDE"] = "1"
	}
	if p.Plugin {
		// the recording plugin also hands in files, among them a name conflict and a file that is
		// submitted under exactly the name a renamed sibling gets: the persist phase must still
		// write every path once, whatever the schedule
		big := "package dup\n\n" + strings.Repeat("// filler line of the second a.go\n", 400) + "var B = 2\n"
		files := []map[string]interface{}{
			{"name": "dup/a.go", "content": "package dup\n\nvar A = 1\n"},
			{"name": "dup/a.go", "content": big},
			{"name": "dup/a_1.go", "content": "package dup\n\nvar C = 3\n"},
			// a template fragment: gofmt cannot take it; it is written as it is, and the other files are formatted all the same
			{"name": "dup/handler_tpl.go", "content": "package dup\n\nfunc {{.Name}}(ctx context.Context) {\n}\n"},
			{"name": "dup/z_after.go", "content": "package dup\n\nvar   D   =   4\n"},
			{"name": "dup/notes.txt", "content": "@@thriftgo_insertion_point(x)notes@@thriftgo_insertion_point(y)\n"},
			{"ip": "x", "content": "patched, see @@thriftgo_insertion_point(y) "},
			{"ip": "y", "content": " end"},
		}
		sc1 := map[string]interface{}{"decode": true, "out_prefix": "$OUT", "files": files}
		// a second plugin that patches the same insertion point and hands in a file of a name the first one used
		files2 := []map[string]interface{}{
			{"name": "dup/a.go", "content": "package dup\n\nvar FromTheSecondPlugin = 9\n"},
			{"name": "dup/notes2.txt", "content": "second\n"},
			{"ip": "x", "content": "[second plugin] "},
		}
		sc2 := map[string]interface{}{"decode": true, "out_prefix": "$OUT", "files": files2}
		switch v.SlowPlugin {
		case 1:
			sc1["delay_before_ns"] = int64(3 * time.Second)
		case 2:
			sc2["delay_before_ns"] = int64(2 * time.Second)
			sc2["delay_mid_ns"] = int64(time.Second)
		}
		cc.Plugins = []plugSpec{{Name: "rec", Path: "/plug/rec", Opts: "k=v,flag", Script: sc1, Version: p.PlugVer},
			{Name: "rec2", Path: "/plug/rec2", Opts: "second", Script: sc2, Version: p.PlugVer}}
	}
	cc.Prelude = v.Prelude
	cc.SdkWd = v.SdkWd
	if v.RelOut != "" {
		cc.OutDir = v.RelOut
	}
	for k := 0; k < v.Twins; k++ {
		inv := []string{"thriftgo", "-g", p.Cfg.gArg()}
		if p.Cfg.Rec {
			inv = append(inv, "-r")
		}
		inv = append(inv, p.Extra...)
		cc.Twins = append(cc.Twins, append(inv, "-o", fmt.Sprintf("/concurrent/out%d", k), p.Main))
	}
	if len(v.Prelude) > 0 {
		cc.Prelude = append(append([][]string{}, p.PreInv...), v.Prelude...)
		if len(v.PreludeWd) > 0 {
			cc.PreludeWd = append(make([]string, len(p.PreInv)), v.PreludeWd...)
		}
		if len(v.PreludeCwd) > 0 {
			cc.PreludeCwd = append(make([]string, len(p.PreInv)), v.PreludeCwd...)
		}
	}
	cc.Extra = p.Extra
	if v.Block != "" && len(v.Prelude) > 0 {
		cc.PreludeRemove = []string{v.Block}
	}
	sp := cc.spec(1)
	if v.Block != "" && len(v.Prelude) > 0 {
		files := map[string][]byte{}
		for k, b := range sp.Files {
			files[k] = b
		}
		files[v.Block] = []byte("a regular file in the way\n")
		sp.Files = files
	}
	if len(v.ExtraFiles) > 0 && len(v.Prelude) > 0 {
		files := map[string][]byte{}
		for k, b := range sp.Files {
			files[k] = b
		}
		for k, b := range v.ExtraFiles {
			files[k] = b
		}
		sp.Files = files
	}
	sp.MapMode = v.MapMode
	sp.MapSites = v.MapSites
	sp.Strategy = v.Strategy
	if sp.Strategy == "" {
		sp.Strategy = "rtb"
	}
	if v.Clock != 0 {
		sp.ClockOffset = v.Clock
		sp.Pid = 1000 + int(uint64(v.Clock)%30000)
	}
	if v.Twins > 0 {
		sp.StepBudget = 6000000
	}
	sp.Parallelism = v.Parallelism
	if sp.Parallelism == 0 {
		sp.Parallelism = 1
	}
	sp.Seeds = map[string]uint64{"map": v.MapSeed, "sched": v.SchedSeed, "select": v.SchedSeed, "pool": v.PoolSeed}
	if v.SchedSeed != 0 {
		sp.Chunk = 128 << (v.SchedSeed % 6) // writes in 128..4096 byte steps: more interleavings of concurrent writers
	}
	if v.Stale && len(p.Stale) > 0 {
		out := v.OutDir
		if out == "" {
			out = "/work/out"
		}
		files := map[string][]byte{}
		for k, b := range sp.Files {
			files[k] = b
		}
		for k, b := range p.Stale {
			files[filepath.Join(out, k)] = b
		}
		sp.Files = files
	}
	return sp
}

func (v *c07Variant) outDir() string {
	if v.RelOut != "" {
		return v.RelOutAbs
	}
	if v.OutDir == "" {
		return "/work/out"
	}
	return v.OutDir
}

type c07View struct {
	Exit  int
	How   string
	Files map[string]string
	Stdin []string
	Res   *simrt.Result
}

func c07Run(a *artefacts, p *c07Pair, v *c07Variant) (*c07View, *worldRun) {
	wr := runWorld(a, p.spec(v))
	if wr.Err != nil || wr.Watchdog || wr.Res == nil {
		return nil, wr
	}
	view := &c07View{Exit: wr.Res.Exit, How: wr.Res.ExitHow, Files: outputs(wr.Res, v.outDir()), Res: wr.Res}
	for _, pr := range wr.Res.Procs {
		var s string
		json.Unmarshal(pr.Notes["stdin.sha256"], &s)
		view.Stdin = append(view.Stdin, s)
	}
	return view, wr
}

type c07D struct {
	Class  string
	Detail string
}

// c07DiffAll lists every aspect the statement compares in which the two views differ.
func c07DiffAll(base, other *c07View, sameOutDir bool) []c07D {
	var out []c07D
	if base.Exit != other.Exit {
		out = append(out, c07D{"exit-status", fmt.Sprintf("exit %d (%s) vs %d (%s)", base.Exit, base.How, other.Exit, other.How)})
	}
	ka, kb := sortedKeys(base.Files), sortedKeys(other.Files)
	if strings.Join(ka, "\n") != strings.Join(kb, "\n") {
		out = append(out, c07D{"file-set", fmt.Sprintf("files %v vs %v", ka, kb)})
	}
	seen := map[string]bool{}
	for _, k := range ka {
		if _, ok := other.Files[k]; !ok {
			continue
		}
		if base.Files[k] != other.Files[k] {
			cls := "content:" + fileClass(k)
			if seen[cls] {
				continue
			}
			seen[cls] = true
			x, y := base.Files[k], other.Files[k]
			i := 0
			for i < len(x) && i < len(y) && x[i] == y[i] {
				i++
			}
			lo := i - 60
			if lo < 0 {
				lo = 0
			}
			hx, hy := i+60, i+60
			if hx > len(x) {
				hx = len(x)
			}
			if hy > len(y) {
				hy = len(y)
			}
			out = append(out, c07D{cls, fmt.Sprintf("%s differs at byte %d (sizes %d / %d): …%q… vs …%q…", k, i, len(x), len(y), x[lo:hx], y[lo:hy])})
		}
	}
	if sameOutDir {
		if strings.Join(base.Stdin, ",") != strings.Join(other.Stdin, ",") {
			out = append(out, c07D{"plugin-stdin", fmt.Sprintf("bytes sent to the plugin differ: sha256 %v vs %v", base.Stdin, other.Stdin)})
		}
	}
	return out
}

// c07Diff reports whether the aspect `want` differs ("" = any); it returns the matching difference.
func c07Diff(base, other *c07View, sameOutDir bool, want string) (string, string) {
	for _, d := range c07DiffAll(base, other, sameOutDir) {
		if want == "" || d.Class == want {
			return d.Class, d.Detail
		}
	}
	return "", ""
}

// fileClass abstracts an output path to its kind.
func fileClass(k string) string {
	b := filepath.Base(k)
	switch {
	case strings.HasSuffix(b, "-reflection.go"):
		return "*-reflection.go"
	case strings.HasPrefix(b, "k-"):
		return "k-*.go"
	case strings.HasSuffix(b, ".go"):
		return "*.go"
	}
	return "other"
}

type c07Found struct {
	Pair    *c07Pair
	Variant *c07Variant
	Class   string
	Detail  string
	Sig     string
}

func c07Check(a *artefacts, tier string, seed uint64, replay string) int {
	t0 := time.Now()
	if replay != "" {
		return c07Replay(a, replay)
	}
	rep := newReporter("C07")
	bo := loadOptions(a)
	r := simrt.NewRand(seed)
	nPairs := 150
	K := 5
	budget := 5 * time.Minute
	if tier == "thorough" {
		nPairs, K, budget = 6000, 8, 45*time.Minute
	}
	deadline := t0.Add(budget)
	cfgs := genConfigs(bo, r, 400)
	// make sure the options that embed maps come early in the quick tier
	sort.SliceStable(cfgs, func(i, j int) bool { return c07Prio(cfgs[i]) > c07Prio(cfgs[j]) })
	corp := corpus()

	var mu sync.Mutex
	var founds []*c07Found
	stats := map[string]int{}
	mapSites := map[string]int{}
	distinct := map[string]bool{}
	fps := map[string]bool{}
	var samples []interface{}
	var simNanos int64
	runs := 0
	var trouble error

	var prevOut map[string][]byte // stale output comes from a different program's run
	parallelMap(nPairs, func(i int) {
		if time.Now().After(deadline) {
			mu.Lock()
			stats["pairs.skipped-deadline"]++
			mu.Unlock()
			return
		}
		pr := simrt.NewRand(simrt.Mix(seed, uint64(i)))
		var prog *program
		if i%4 == 3 && len(corp) > 0 {
			prog = corp[(i/4)%len(corp)]
		} else {
			prog = genProgram(simrt.Mix(seed^0xc07, uint64(i)), idlgen.Options{MaxFiles: 4, MaxDefs: 7, Rich: i%2 == 0})
		}
		cfg := cfgs[i%len(cfgs)]
		pair := &c07Pair{Prog: prog.Name, Files: prog.Files, Cwd: prog.Cwd, Main: prog.Main, Cfg: cfg}
		if prog.Model != nil && i%7 == 6 {
			c07IncludeDirs(pair, prog)
		}
		sdkPhase := cfg.Backend == "go" && (i%5 == 2 || c07HasCodeRef(cfg))
		if sdkPhase {
			c07SdkFiles(pr, pair)
		}
		if pr.Chance(1, 2) {
			pair.Plugin = true
			pair.PlugVer = []string{"v0.4.2", "v0.4.1", "v0.5.0", ""}[pr.Intn(4)]
			pair.Compress = pr.Chance(1, 2)
		}
		base := &c07Variant{Name: "baseline", MapMode: "sorted", Strategy: "rtb", Parallelism: 1}
		bv, bw := c07Run(a, pair, base)
		mu.Lock()
		runs++
		mu.Unlock()
		if bv == nil {
			mu.Lock()
			if bw.Watchdog {
				stats["baseline.watchdog"]++
			} else if trouble == nil {
				trouble = fmt.Errorf("baseline run of %s with %s: %v", prog.Name, cfg, bw.Err)
			}
			mu.Unlock()
			return
		}
		if bv.Exit != 0 || len(bv.Files) == 0 || strings.Contains(bw.Stdout, "Recovered from panic") {
			mu.Lock()
			stats["pairs.discarded-rejected"]++
			mu.Unlock()
			return
		}
		// remember this output as stale material for later pairs
		mu.Lock()
		if len(bv.Files) > 0 && (prevOut == nil || pr.Chance(1, 5)) {
			po := map[string][]byte{}
			for k, c := range bv.Files {
				if strings.HasPrefix(k, "$OUT/") {
					po[strings.TrimPrefix(k, "$OUT/")] = []byte(c)
				}
			}
			prevOut = po
		}
		mu.Unlock()
		// stale output for this pair: every path the run writes already exists with other, longer
		// content (another program's output where one is at hand) — a run must replace it completely
		mu.Lock()
		other := prevOut
		mu.Unlock()
		pair.Stale = map[string][]byte{}
		for k, c := range bv.Files {
			if !strings.HasPrefix(k, "$OUT/") {
				continue
			}
			rel := strings.TrimPrefix(k, "$OUT/")
			if hash64s(rel)%3 == 0 && len(c) > 0 {
				// a file of exactly the size of the new one, with other bytes (an earlier run on a slightly
				// different input, or an edit in place): size alone says nothing about content
				same := []byte(c)
				for i := range same {
					if i%5 == 0 && ((same[i] >= 'a' && same[i] <= 'z') || (same[i] >= 'A' && same[i] <= 'Z')) {
						same[i] ^= 0x20
					}
				}
				pair.Stale[rel] = same
				continue
			}
			old := []byte("// left over from an earlier run\n")
			if len(other) > 0 {
				oks := make([]string, 0, len(other))
				for ok := range other {
					oks = append(oks, ok)
				}
				sort.Strings(oks)
				old = append([]byte(nil), other[oks[0]]...)
			}
			for len(old) < len(c)+512 {
				old = append(old, []byte("// stale tail of an earlier run\n")...)
			}
			pair.Stale[rel] = old
		}
		vars := []*c07Variant{
			{Name: "maps-reversed+stale-output+later", MapMode: "reversed", Strategy: "rtb", Parallelism: 1, Stale: true, Clock: c07Later(pr)},
			{Name: "maps-random+schedule+parallelism", MapMode: "random", MapSeed: pr.Uint64(), Strategy: "random", SchedSeed: pr.Uint64(), Parallelism: 2 + pr.Intn(15), PoolSeed: pr.Uint64()},
			{Name: "after-other-invocations-in-the-same-process", MapMode: "sorted", Strategy: "rtb", Parallelism: 1, Prelude: c07Prelude(pr, pair), Clock: c07Later(pr)},
			{Name: "other-output-dir+stale-output", MapMode: "random", MapSeed: pr.Uint64(), Strategy: "pct", SchedSeed: pr.Uint64(), Parallelism: 1 + pr.Intn(16), OutDir: []string{"/elsewhere/deep/o2", "/work/gen-out", "/zq7.o", "/srv/proj.gopath/gen", "/data/v1.golden"}[pr.Intn(5)], Stale: true},
			{Name: "maps-random-2+later", MapMode: "random", MapSeed: pr.Uint64(), Strategy: "rtb", Parallelism: 1, Clock: c07Later(pr)},
			{Name: "schedule-only", MapMode: "sorted", Strategy: "random", SchedSeed: pr.Uint64(), Parallelism: 16, PoolSeed: pr.Uint64()},
			{Name: "maps-random-3+stale", MapMode: "random", MapSeed: pr.Uint64(), Strategy: "pct", SchedSeed: pr.Uint64(), Parallelism: 8, Stale: true},
			{Name: "maps-random-4", MapMode: "random", MapSeed: pr.Uint64(), Strategy: "random", SchedSeed: pr.Uint64(), Parallelism: 3},
		}
		if pair.Plugin {
			vars[1].SlowPlugin = 1 + pr.Intn(2)
			vars[4].SlowPlugin = 1 + pr.Intn(2)
		}
		if len(vars) > K-1 {
			vars = vars[:K-1]
		}
		if fv := c07FailedEarlier(pr, pair, bv); fv != nil && i%3 == 1 {
			vars = append(vars, fv)
		}
		if tv := c07TwinEarlier(pr, pair); tv != nil && i%3 == 2 {
			vars = append(vars, tv)
		}
		if i%6 == 4 && !pair.Plugin {
			// other callers of the process generate the same program at the same time, each with objects of its own
			vars = append(vars, &c07Variant{Name: "concurrent-generations", MapMode: "sorted", Strategy: []string{"random", "pct", "random"}[pr.Intn(3)], SchedSeed: pr.Uint64(), PoolSeed: pr.Uint64(), Parallelism: 1 + pr.Intn(4), Twins: 1 + pr.Intn(2)})
		}
		nontrivial := false
		foundHere := map[string]bool{}
		for _, v := range vars {
			if v.Stale && len(pair.Stale) == 0 {
				v.Stale = false
			}
			vv, vw := c07Run(a, pair, v)
			mu.Lock()
			runs++
			mu.Unlock()
			if vv == nil {
				mu.Lock()
				if vw.Watchdog {
					stats["variant.watchdog"]++
				} else if trouble == nil {
					trouble = fmt.Errorf("variant %s of %s with %s: %v", v.Name, prog.Name, cfg, vw.Err)
				}
				mu.Unlock()
				continue
			}
			mu.Lock()
			simNanos += vv.Res.SimNanos
			for s, n := range vv.Res.MapSites {
				if n > mapSites[s] {
					mapSites[s] = n
				}
			}
			fps[vv.Res.SchedFP] = true
			stats["variant."+v.Name]++
			if v.Twins > 0 {
				for _, k := range []string{"twin.succeeded", "twin.failed", "twin.panicked", "global-var-yield"} {
					stats["concurrent-generations."+k] += vv.Res.Counters[k]
				}
				stats["concurrent-generations.scheduling-decisions"] += vv.Res.Branching
			}
			if v.Stale {
				stats["variant.with-stale-files"]++
			}
			mu.Unlock()
			if len(vv.Res.MapSites) > 0 || vv.Res.Branching > 0 {
				nontrivial = true
			}
			for _, d := range c07DiffAll(bv, vv, v.outDir() == base.outDir()) {
				if foundHere[d.Class] {
					continue
				}
				foundHere[d.Class] = true
				mu.Lock()
				founds = append(founds, &c07Found{Pair: pair, Variant: v, Class: d.Class, Detail: d.Detail})
				mu.Unlock()
			}
		}
		if sdkPhase {
			// the same call made through sdk.RunThriftgoAsSDK: first with nothing before it, then after
			// calls for other projects (other working directories, one of them with an idl-ref.yml)
			sv := c07SdkVariant(pr, pair)
			sb, _ := c07Run(a, pair, c07BaseFor(sv))
			mu.Lock()
			runs++
			mu.Unlock()
			if sb != nil && sb.Exit == 0 && len(sb.Files) > 0 {
				vv, vw := c07Run(a, pair, sv)
				mu.Lock()
				runs++
				if vv == nil {
					if vw.Watchdog {
						stats["variant.watchdog"]++
					} else if trouble == nil {
						trouble = fmt.Errorf("variant %s of %s with %s: %v", sv.Name, prog.Name, cfg, vw.Err)
					}
				} else {
					stats["variant."+sv.Name]++
					simNanos += vv.Res.SimNanos
					for _, d := range c07DiffAll(sb, vv, true) {
						founds = append(founds, &c07Found{Pair: pair, Variant: sv, Class: d.Class, Detail: d.Detail})
					}
				}
				mu.Unlock()
			} else {
				mu.Lock()
				stats["sdk-baseline.discarded"]++
				mu.Unlock()
			}
		}
		mu.Lock()
		if nontrivial {
			distinct[prog.Name+"|"+cfg.String()] = true
		}
		stats["pairs.compared"]++
		if len(samples) < 3 {
			samples = append(samples, map[string]interface{}{"program": prog.Name, "config": cfg.String(), "plugin": pair.Plugin, "compress": pair.Compress,
				"files_written": len(bv.Files), "variants": len(vars), "argv": pair.spec(base).Args})
		}
		mu.Unlock()
	})
	if trouble != nil {
		die(2, "simulator trouble: %v", trouble)
	}

	fmt.Fprintf(os.Stderr, "vcheck: C07 pairs done at %.1fs (%d runs)\n", time.Since(t0).Seconds(), runs)
	// isolate the cause of every difference in parallel (dimension, guilty map sites); then one
	// representative per signature is shrunk, written as a replay file, replayed and reported
	sort.SliceStable(founds, func(i, j int) bool { return len(founds[i].Pair.Files) < len(founds[j].Pair.Files) })
	var isolated []*c07Found
	parallelMap(len(founds), func(i int) {
		fs := c07Isolate(a, founds[i])
		mu.Lock()
		isolated = append(isolated, fs...)
		mu.Unlock()
	})
	sort.SliceStable(isolated, func(i, j int) bool {
		if isolated[i].Sig != isolated[j].Sig {
			return isolated[i].Sig < isolated[j].Sig
		}
		return c07Size(isolated[i].Pair) < c07Size(isolated[j].Pair)
	})
	fmt.Fprintf(os.Stderr, "vcheck: C07 isolation done at %.1fs\n", time.Since(t0).Seconds())
	seen := map[string]bool{}
	var reps []*c07Found
	for _, f := range isolated {
		if !seen[f.Sig] {
			seen[f.Sig] = true
			reps = append(reps, f)
		}
	}
	if len(reps) > 12 {
		reps = reps[:12]
	}
	parallelMap(len(reps), func(i int) { c07Shrink(a, reps[i]) })
	fmt.Fprintf(os.Stderr, "vcheck: C07 shrinking done at %.1fs\n", time.Since(t0).Seconds())
	for nrep, f := range reps {
		payload, _ := json.Marshal(map[string]interface{}{"pair": f.Pair, "variant": f.Variant})
		rf := &replayFile{Property: "C07", Kind: "cmd:c07", Class: f.Class, Sig: f.Sig, Msg: f.Detail, Seed: seed, Payload: payload}
		path := writeReplay(rf, nrep)
		if ok, why := c07ReplayOK(a, rf); !ok {
			die(2, "replay file %s does not reproduce: %s", path, why)
		}
		rep.report(f.Sig, fmt.Sprintf("%s with -g %s: %s [variant %s]", f.Pair.Prog, f.Pair.Cfg, f.Detail, f.Variant.Name), path)
	}

	// determinism of the simulator itself on a sample (same spec, two processes)
	detN := 16
	if tier == "thorough" {
		detN = 128
	}
	detBad := 0
	parallelMap(detN, func(i int) {
		prog := genProgram(simrt.Mix(seed^0xde7, uint64(i)), idlgen.Options{MaxFiles: 3})
		pair := &c07Pair{Prog: prog.Name, Files: prog.Files, Cwd: prog.Cwd, Main: prog.Main, Cfg: cfgs[i%len(cfgs)]}
		v := &c07Variant{Name: "det", MapMode: "random", MapSeed: uint64(i), Strategy: "random", SchedSeed: uint64(i), Parallelism: 8}
		x, _ := c07Run(a, pair, v)
		// the second process runs with another real GOMAXPROCS: the simulated execution must not notice
		sp2 := pair.spec(v)
		sp2.Label = []string{"gomaxprocs=4", "gomaxprocs=16"}[i%2]
		var y *c07View
		if wr := runWorld(a, sp2); wr.Res != nil {
			y = &c07View{Res: wr.Res}
		}
		if x == nil || y == nil || x.Res.LogHash != y.Res.LogHash {
			mu.Lock()
			detBad++
			mu.Unlock()
		}
	})
	if detBad > 0 {
		die(2, "determinism self-test: %d of %d identical specs gave different event logs (unseamed source of nondeterminism in the simulator)", detBad, detN)
	}

	sites2 := 0
	var siteList []string
	for s, n := range mapSites {
		if n >= 2 {
			sites2++
			siteList = append(siteList, fmt.Sprintf("%s(max %d keys)", s, n))
		}
	}
	sort.Strings(siteList)
	// sites the rewriter instrumented but no run reached with two keys: an order dependence there cannot show
	var notReached []string
	if b, err := os.ReadFile(a.Report); err == nil {
		var rp struct {
			MapSites []string `json:"map_sites"`
		}
		if json.Unmarshal(b, &rp) == nil {
			for _, sname := range rp.MapSites {
				if mapSites[sname] < 2 {
					notReached = append(notReached, sname)
				}
			}
		}
	}
	wall := time.Since(t0).Seconds()
	if len(samples) == 0 {
		samples = append(samples, "none")
	}
	cov := map[string]interface{}{
		"evaluations":                            runs,
		"distinct_nontrivial":                    len(distinct),
		"rule":                                   "a case is a (program, configuration) pair run K times (baseline all-sorted/run-to-block/parallelism 1, then variants in map-iteration modes per site, persist schedule and strategy, parallelism 1..16, output directory, stale output of another program, with a recording plugin); non-trivial = at least one map site with >=2 keys or one scheduling decision was actually varied; distinct by (program, configuration)",
		"samples":                                samples,
		"pairs":                                  stats,
		"map_sites_executed_with_2_or_more_keys": siteList,
		"map_sites_instrumented_but_not_reached_with_2_keys": notReached,
		"schedule_fingerprints":                              len(fps),
		"runs_per_hour":                                      int(float64(runs) / wall * 3600),
		"simulated_time_ns":                                  simNanos,
		"determinism_selftest":                               fmt.Sprintf("%d specs run twice in separate processes: identical event-log hashes", detN),
		"real_vs_stub": map[string]interface{}{
			"real": []string{"main.main", "sdk.InvokeThriftgo", "args", "parser", "semantic", "generator (FileManager, persist pool)", "golang and fastgo backends with all templates", "plugin marshalling/compression", "go/format"},
			"stub": []string{"os/ioutil file calls (simulated disk)", "os/exec + buildinfo (simulated plugin process)", "goroutine scheduling / channels / select / WaitGroup / sync.Pool", "map iteration order in thriftgo's own packages", "argv, environment, exit"},
		},
		"tree": a.Hash,
	}
	writeEvidence(&evidence{PropertyID: "C07", Tier: tier, Seed: int64(seed & 0x7fffffffffffffff), Level: "exploration", Coverage: cov,
		Assumptions: []string{
			"map iteration order is controlled only in thriftgo's own packages (text/template and encoding/json sort keys themselves)",
			"any permutation of a map's keys is a legal iteration order in Go; the seam explores sorted, reversed and seeded random orders",
			"a clean batch is evidence, not proof",
		}, WallS: wall, Violations: rep.violations})
	fmt.Printf("C07 %s: %d runs over %d pairs (%d distinct non-trivial), %d map sites reached with >=2 keys, %d difference(s) found, %d violation(s), %d known finding(s), %.1fs\n",
		tier, runs, stats["pairs.compared"], len(distinct), sites2, len(founds), rep.violations, len(rep.known), wall)
	if rep.violations > 0 {
		return 1
	}
	return 0
}

func c07Prio(c config) int {
	s := c.String()
	p := 0
	for _, k := range []string{"with_reflection", "with_field_mask", "template=slim", "keep_unknown_fields", "gen_type_meta", "no_fmt"} {
		if strings.Contains(s, k) && !strings.Contains(s, k+"=false") {
			p++
		}
	}
	if len(c.Opts) == 0 {
		p++
	}
	return p
}

func c07Size(p *c07Pair) int {
	n := 0
	for _, b := range p.Files {
		n += len(b)
	}
	return n
}

var c07Base = &c07Variant{Name: "baseline", MapMode: "sorted", Strategy: "rtb", Parallelism: 1}

var c07BaseCache sync.Map // c07BaseKey -> *c07View

type c07BaseKey struct {
	p   *c07Pair
	sdk string
}

func c07Differs(a *artefacts, p *c07Pair, v *c07Variant, class string) (string, bool) {
	var bv *c07View
	base := c07BaseFor(v)
	key := c07BaseKey{p, v.SdkWd}
	if c, ok := c07BaseCache.Load(key); ok {
		bv = c.(*c07View)
	} else {
		bv, _ = c07Run(a, p, base)
		if bv != nil {
			c07BaseCache.Store(key, bv)
		}
	}
	vv, _ := c07Run(a, p, v)
	if bv == nil || vv == nil || bv.Exit != 0 {
		return "", false
	}
	cls, det := c07Diff(bv, vv, v.outDir() == base.outDir(), class)
	return det, cls == class
}

// c07Isolate reduces the variant to the dimensions that matter and, for map
// order, names every single site that reproduces the difference on its own:
// one found (and signature) per guilty site, so that a known site never hides a new one.
func c07Isolate(a *artefacts, f *c07Found) []*c07Found {
	v := *f.Variant
	try := func(mod func(*c07Variant)) {
		w := v
		mod(&w)
		if _, ok := c07Differs(a, f.Pair, &w, f.Class); ok {
			v = w
		}
	}
	try(func(w *c07Variant) { w.Prelude, w.PreludeWd, w.Block, w.ExtraFiles = nil, nil, "", nil })
	try(func(w *c07Variant) { w.Block = "" })
	try(func(w *c07Variant) { w.PreludeWd = nil })
	try(func(w *c07Variant) { w.PreludeCwd = nil })
	try(func(w *c07Variant) { w.SlowPlugin = 0 })
	try(func(w *c07Variant) { w.Twins = 0 })
	try(func(w *c07Variant) { w.Stale = false })
	try(func(w *c07Variant) { w.Clock = 0 })
	try(func(w *c07Variant) { w.OutDir = "" })
	try(func(w *c07Variant) { w.Strategy, w.SchedSeed, w.PoolSeed = "rtb", 0, 0 })
	try(func(w *c07Variant) { w.Parallelism = 1 })
	try(func(w *c07Variant) { w.MapMode, w.MapSeed, w.MapSites = "sorted", 0, nil })
	dims := func(v *c07Variant, guilty string) string {
		var d []string
		if len(v.Prelude) > 0 {
			d = append(d, "previous-invocations")
		}
		if v.SdkWd != "" && len(v.PreludeWd) > 0 {
			d = append(d, "sdk-working-directories")
		}
		if len(v.PreludeCwd) > 0 && len(v.Prelude) > 0 {
			d = append(d, "process-working-directory")
		}
		if v.Block != "" && len(v.Prelude) > 0 {
			d = append(d, "failed-earlier-run")
		}
		if v.SlowPlugin != 0 {
			d = append(d, "plugin-pace")
		}
		if v.Twins != 0 {
			d = append(d, "concurrent-generations")
		}
		if v.Stale {
			d = append(d, "stale-output")
		}
		if v.OutDir != "" {
			d = append(d, "output-dir")
		}
		if v.Clock != 0 {
			d = append(d, "wall-clock")
		}
		if v.Strategy != "rtb" && v.Strategy != "" {
			d = append(d, "schedule")
		}
		if v.Parallelism > 1 {
			d = append(d, "parallelism")
		}
		if guilty != "" {
			d = append(d, "map-order@"+guilty)
		} else if v.MapMode != "sorted" && v.MapMode != "" {
			d = append(d, "map-order")
		}
		return strings.Join(d, ",")
	}
	mk := func(v c07Variant, guilty string) *c07Found {
		det, ok := c07Differs(a, f.Pair, &v, f.Class)
		if !ok {
			return nil
		}
		return &c07Found{Pair: f.Pair, Variant: &v, Class: f.Class, Detail: det, Sig: f.Class + "|" + dims(&v, guilty)}
	}
	var out []*c07Found
	if v.MapMode != "sorted" && v.MapMode != "" {
		bv, _ := c07Run(a, f.Pair, &v)
		if bv != nil {
			var sites []string
			for s, n := range bv.Res.MapSites {
				if n >= 2 {
					sites = append(sites, s)
				}
			}
			sort.Strings(sites)
			for _, s := range sites {
				w := v
				w.MapMode, w.MapSeed = "sorted", 0
				w.MapSites = map[string]string{s: "reversed"}
				if x := mk(w, siteFile(s)); x != nil {
					out = append(out, x)
				}
			}
			if len(out) == 0 {
				// no single site: greedily drop sites from the reversed set
				cur := map[string]string{}
				for _, s := range sites {
					cur[s] = "reversed"
				}
				w := v
				w.MapMode, w.MapSeed, w.MapSites = "sorted", 0, cur
				if _, ok := c07Differs(a, f.Pair, &w, f.Class); ok {
					for _, s := range sites {
						delete(cur, s)
						if _, ok := c07Differs(a, f.Pair, &w, f.Class); !ok {
							cur[s] = "reversed"
						}
					}
					var g []string
					for s := range cur {
						g = append(g, siteFile(s))
					}
					sort.Strings(g)
					if x := mk(w, strings.Join(g, "+")); x != nil {
						out = append(out, x)
					}
				}
			}
		}
	}
	if len(out) == 0 {
		if x := mk(v, ""); x != nil {
			out = append(out, x)
		} else {
			// could not be reproduced at all: keep the original observation, it will fail replay loudly
			out = append(out, &c07Found{Pair: f.Pair, Variant: f.Variant, Class: f.Class, Detail: f.Detail, Sig: f.Class + "|unisolated"})
		}
	}
	return out
}

// siteFile turns "pkg/file.go:123" into "pkg/file.go:123" (kept) — signatures name the file and line of the range statement.
func siteFile(s string) string { return s }

// c07Shrink reduces options, plugin and program text of a reported difference.
func c07Shrink(a *artefacts, f *c07Found) {
	v := f.Variant
	pair := *f.Pair
	for i := 0; i < len(pair.Cfg.Opts); {
		q := pair
		q.Cfg.Opts = append(append([]string{}, pair.Cfg.Opts[:i]...), pair.Cfg.Opts[i+1:]...)
		if _, ok := c07Differs(a, &q, v, f.Class); ok {
			pair = q
		} else {
			i++
		}
	}
	if pair.Plugin && f.Class != "plugin-stdin" {
		q := pair
		q.Plugin = false
		if _, ok := c07Differs(a, &q, v, f.Class); ok {
			pair = q
		}
	}
	if strings.HasPrefix(pair.Prog, "idlgen:") {
		pair.Files = c07ShrinkFiles(pair.Files, func(files map[string][]byte) bool {
			q := pair
			q.Files = files
			_, ok := c07Differs(a, &q, v, f.Class)
			return ok
		})
	}
	if det, ok := c07Differs(a, &pair, v, f.Class); ok {
		f.Pair, f.Detail = &pair, det
	}
}

func optNames(c config) []string {
	out := []string{c.Backend}
	for _, o := range c.Opts {
		out = append(out, o)
	}
	return out
}

// c07ShrinkFiles drops lines (in chunks) from the IDL files while pred holds.
func c07ShrinkFiles(files map[string][]byte, pred func(map[string][]byte) bool) map[string][]byte {
	cur := files
	names := make([]string, 0, len(files))
	for n := range files {
		names = append(names, n)
	}
	sort.Strings(names)
	budget := 150
	for _, n := range names {
		lines := strings.Split(string(cur[n]), "\n")
		for size := len(lines) / 2; size >= 1 && budget > 0; size /= 2 {
			for start := 0; start+size <= len(lines) && budget > 0; {
				cand := append(append([]string{}, lines[:start]...), lines[start+size:]...)
				nf := map[string][]byte{}
				for k, b := range cur {
					nf[k] = b
				}
				nf[n] = []byte(strings.Join(cand, "\n"))
				budget--
				if pred(nf) {
					cur, lines = nf, cand
				} else {
					start += size
				}
			}
		}
	}
	return cur
}

func c07ReplayOK(a *artefacts, rf *replayFile) (bool, string) {
	var pl struct {
		Pair    *c07Pair    `json:"pair"`
		Variant *c07Variant `json:"variant"`
	}
	if err := json.Unmarshal(rf.Payload, &pl); err != nil {
		return false, err.Error()
	}
	base := c07BaseFor(pl.Variant)
	var last string
	for i := 0; i < 2; i++ {
		bv, bw := c07Run(a, pl.Pair, base)
		vv, vw := c07Run(a, pl.Pair, pl.Variant)
		if bv == nil || vv == nil {
			return false, fmt.Sprintf("run failed: %v %v", bw.Err, vw.Err)
		}
		cls, det := c07Diff(bv, vv, pl.Variant.outDir() == base.outDir(), rf.Class)
		if cls != rf.Class {
			return false, fmt.Sprintf("difference class %q, recorded %q", cls, rf.Class)
		}
		if i == 1 && det != last {
			return false, "the difference itself differs between two replays"
		}
		last = det
	}
	return true, ""
}

func c07Replay(a *artefacts, path string) int {
	rf := readReplay(path)
	ok, why := c07ReplayOK(a, rf)
	if ok {
		fmt.Printf("VIOLATION property=C07 replay=%s\n  reproduced: %s\n  %s\n", path, rf.Sig, rf.Msg)
		return 1
	}
	fmt.Printf("replay of %s did not reproduce the recorded difference on this tree: %s\n", path, why)
	return 0
}

// c07Prelude: invocations an SDK user could have made earlier in the same
// process: the same IDL with other options and another backend, and a failing one.
func c07Prelude(r *simrt.Rand, p *c07Pair) [][]string {
	var out [][]string
	goOpts := []string{"gen_setter,reorder_fields,package_prefix=example.com/c07", "naming_style=golint,ignore_initialisms", "template=slim,gen_deep_equal=false",
		"with_reflection,with_field_mask", "keep_unknown_fields,json_enum_as_text,nil_safe", "trim_idl,use_type_alias", "naming_style=apache,compatible_names,snake_style_json_tag",
		"ignore_initialisms", "ignore_initialisms,gen_setter", "naming_style=apache,ignore_initialisms",
		"with_reflection,with_field_mask,field_mask_zero_required", "with_field_mask,field_mask_zero_required,field_mask_halfway"}
	n := 1 + r.Intn(3)
	for i := 0; i < n; i++ {
		switch r.Intn(5) {
		case 0:
			out = append(out, []string{"thriftgo", "-g", "fastgo:" + goOpts[r.Intn(len(goOpts))], "-r", "-o", fmt.Sprintf("/prelude/out%d", i), p.Main})
		case 1:
			out = append(out, []string{"thriftgo", "-g", "go", "-o", fmt.Sprintf("/prelude/out%d", i), "no-such-file.thrift"})
		case 2:
			out = append(out, []string{"thriftgo", "-g", "go:no_such_option=1", "-o", fmt.Sprintf("/prelude/out%d", i), p.Main})
		default:
			out = append(out, []string{"thriftgo", "-g", "go:" + goOpts[r.Intn(len(goOpts))], "-r", "-o", fmt.Sprintf("/prelude/out%d", i), p.Main})
		}
	}
	return out
}

// c07IncludeDirs moves one leaf file that the main file includes by a plain relative path out of
// the tree into an include directory (/incB, given with -i), and puts a slightly different file of the
// same name into another include directory (/incA) that only an earlier invocation of the session
// variant uses: where an include is found must depend on this invocation's -i list only.
func c07IncludeDirs(pair *c07Pair, prog *program) {
	m := prog.Model
	if m == nil || len(m.Files) < 2 {
		return
	}
	for _, inc := range m.Files[0].Includes {
		f := m.Files[inc]
		if len(f.Includes) > 0 || strings.Contains(f.Path, "..") {
			continue
		}
		// nobody else may include it (their relative paths would no longer resolve)
		others := false
		for k, g := range m.Files {
			if k == 0 {
				continue
			}
			for _, x := range g.Includes {
				if x == inc {
					others = true
				}
			}
		}
		if others {
			continue
		}
		src := "/work/" + f.Path
		body, ok := pair.Files[src]
		if !ok {
			continue
		}
		files := map[string][]byte{}
		for k, b := range pair.Files {
			if k != src {
				files[k] = b
			}
		}
		files["/incB/"+f.Path] = body
		files["/incA/"+f.Path] = append(append([]byte{}, body...), []byte("const i32 ONLY_IN_THE_OTHER_INCLUDE_DIR = 1\n")...)
		pair.Files = files
		pair.Extra = []string{"-i", "/incB"}
		rec := []string{}
		if pair.Cfg.Rec {
			rec = []string{"-r"}
		}
		inv := append([]string{"thriftgo", "-g", pair.Cfg.gArg()}, rec...)
		inv = append(inv, "-o", "/prelude/inc", "-i", "/incA", pair.Main)
		pair.PreInv = [][]string{inv}
		return
	}
}

func c07HasCodeRef(c config) bool {
	for _, o := range c.Opts {
		if strings.HasPrefix(o, "code_ref") || strings.HasPrefix(o, "exp_code_ref") {
			if !strings.HasSuffix(o, "=false") {
				return true
			}
		}
	}
	return false
}

// c07SdkFiles prepares a pair for the SDK phase: a code-ref option in the configuration, another
// project directory (/sdkproj) whose idl-ref.yml maps every IDL file of this program to a remote
// package, and sometimes an idl-ref.yml of the project itself that maps one included file.
func c07SdkFiles(r *simrt.Rand, p *c07Pair) {
	if !c07HasCodeRef(p.Cfg) {
		p.Cfg.Opts = append(append([]string{}, p.Cfg.Opts...), []string{"code_ref", "code_ref_slim", "exp_code_ref"}[r.Intn(3)])
	}
	var idls []string
	for k := range p.Files {
		if strings.HasSuffix(k, ".thrift") {
			idls = append(idls, k)
		}
	}
	sort.Strings(idls)
	files := map[string][]byte{}
	for k, b := range p.Files {
		files[k] = b
	}
	var sb strings.Builder
	sb.WriteString("ref:\n")
	for i, k := range idls {
		fmt.Fprintf(&sb, "  %s: \"example.com/remote/p%d\"\n", k, i)
	}
	files["/sdkproj/idl-ref.yml"] = []byte(sb.String())
	main := filepath.Join(p.Cwd, p.Main)
	if r.Chance(1, 3) {
		for _, k := range idls {
			if k != main {
				files[filepath.Join(p.Cwd, "idl-ref.yml")] = []byte(fmt.Sprintf("ref:\n  %s: \"example.com/own/ref\"\n", k))
				break
			}
		}
	}
	p.Files = files
}

func c07SdkVariant(r *simrt.Rand, p *c07Pair) *c07Variant {
	v := &c07Variant{Name: "sdk-after-other-working-directories", MapMode: "sorted", Strategy: "rtb", Parallelism: 1, SdkWd: p.Cwd}
	// SDK users name the output directory relative to the project: -o gen-sdk-out
	v.RelOut, v.RelOutAbs = "gen-sdk-out", filepath.Join(p.Cwd, "gen-sdk-out")
	main := filepath.Join(p.Cwd, p.Main)
	rec := []string{}
	if p.Cfg.Rec {
		rec = []string{"-r"}
	}
	n := 1 + r.Intn(2)
	for i := 0; i < n; i++ {
		inv := append([]string{"thriftgo", "-g", p.Cfg.gArg()}, rec...)
		inv = append(inv, p.Extra...)
		inv = append(inv, "-o", fmt.Sprintf("/prelude/sdk%d", i), main)
		v.Prelude = append(v.Prelude, inv)
		wd := "/sdkproj"
		if i > 0 && r.Chance(1, 2) {
			wd = "/somewhere/else"
		}
		v.PreludeWd = append(v.PreludeWd, wd)
		v.PreludeCwd = append(v.PreludeCwd, "")
	}
	if r.Chance(1, 2) {
		// the very same call for the very same project made earlier, while the host program stood in
		// another directory (it changes its working directory between calls); the process is back
		// where it started when the observed call is made
		inv := append([]string{"thriftgo", "-g", p.Cfg.gArg()}, rec...)
		inv = append(inv, p.Extra...)
		inv = append(inv, "-o", v.RelOut, main)
		v.Prelude = append(v.Prelude, inv)
		v.PreludeWd = append(v.PreludeWd, p.Cwd)
		v.PreludeCwd = append(v.PreludeCwd, []string{"/somewhere/deep/else", "/srv", p.Cwd + "/sub/dir"}[r.Intn(3)])
	}
	return v
}

// c07Later: two runs of a command never happen at the same instant: the other run starts between
// a second and about three years after the baseline.
func c07Later(r *simrt.Rand) int64 {
	switch r.Intn(4) {
	case 0:
		return int64(time.Second) * int64(1+r.Intn(5))
	case 1:
		return int64(time.Minute) * int64(1+r.Intn(600))
	default:
		return int64(time.Hour) * int64(1+r.Intn(26000))
	}
}

func hash64s(s string) uint64 {
	h := uint64(14695981039346656037)
	for i := 0; i < len(s); i++ {
		h ^= uint64(s[i])
		h *= 1099511628211
	}
	return h
}

// c07FailedEarlier: an earlier invocation in the same process wrote the same program with other
// options into the same output directory and failed half way (a regular file sat where it had to
// create a directory); the obstacle is gone when the observed invocation starts.  Whatever the
// failed run left behind - files, or work still going on - must not show in the observed run's output.
func c07FailedEarlier(r *simrt.Rand, p *c07Pair, bv *c07View) *c07Variant {
	var dirs []string
	for k := range bv.Files {
		if strings.HasPrefix(k, "$OUT/") {
			if d := filepath.Dir(strings.TrimPrefix(k, "$OUT/")); d != "." {
				dirs = append(dirs, d)
			}
		}
	}
	if len(dirs) == 0 {
		return nil
	}
	sort.Strings(dirs)
	block := "/work/out/" + dirs[r.Intn(len(dirs))]
	other := []string{"gen_setter", "reorder_fields", "nil_safe", "gen_deep_equal=false", "json_enum_as_text", "keep_unknown_fields"}[r.Intn(6)]
	cfg := config{Backend: p.Cfg.Backend, Opts: append(append([]string{}, p.Cfg.Opts...), other), Rec: p.Cfg.Rec}
	inv := []string{"thriftgo", "-g", cfg.gArg()}
	if cfg.Rec {
		inv = append(inv, "-r")
	}
	inv = append(inv, p.Extra...)
	inv = append(inv, "-o", "/work/out", p.Main)
	return &c07Variant{Name: "after-a-failed-run-into-the-same-directory", MapMode: "sorted", Strategy: "random", SchedSeed: r.Uint64(), PoolSeed: r.Uint64(),
		Parallelism: 2 + r.Intn(15), Prelude: [][]string{inv}, Block: block}
}

var c07FieldName = regexp.MustCompile(`\bf(\d+_\d+)`)

// c07TwinEarlier: an earlier invocation in the same process generated a twin of the program - the same
// files under /twin with every field name f<k>_<i> spelled g<k>_<i>: same paths, same sizes, other
// contents - into the same output directory.  Nothing of it may show in the observed run's output.
func c07TwinEarlier(r *simrt.Rand, p *c07Pair) *c07Variant {
	if len(p.Extra) > 0 || !strings.HasPrefix(p.Prog, "idlgen:") || strings.HasPrefix(p.Main, "/") {
		return nil
	}
	twin := map[string][]byte{}
	changed := false
	for k, b := range p.Files {
		if !strings.HasPrefix(k, p.Cwd+"/") || !strings.HasSuffix(k, ".thrift") {
			continue
		}
		nb := c07FieldName.ReplaceAll(b, []byte("g$1"))
		if string(nb) != string(b) {
			changed = true
		}
		twin["/twin/"+strings.TrimPrefix(k, p.Cwd+"/")] = nb
	}
	if !changed {
		return nil
	}
	inv := []string{"thriftgo", "-g", p.Cfg.gArg()}
	if p.Cfg.Rec {
		inv = append(inv, "-r")
	}
	inv = append(inv, "-o", "/work/out", "/twin/"+p.Main)
	return &c07Variant{Name: "after-a-run-on-a-twin-program-into-the-same-directory", MapMode: "sorted", Strategy: "rtb", Parallelism: 1 + r.Intn(4),
		Prelude: [][]string{inv}, ExtraFiles: twin}
}
